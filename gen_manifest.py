#!/usr/bin/env python3
"""Regenerates MANIFEST.json from props.json + the tables below."""
import json, subprocess
ENGINES = {
 "e2": ("sim/e2", "storesim: real headerfs stores + real bbolt + chainimport under tape-generated histories, injected file/db faults, crash-image enumeration"),
 "e4": ("sim/e4", "cachesim: real lru.Cache, real caller goroutines released one at a time by the tape at hook-H3 yield points; porcupine linearizability + invariants"),
 "e3": ("sim/e3", "compsim: one real component at a time (query work manager, blockntfns manager, pushtx broadcaster, banman store, utxo scanner, rescan) in a synctest bubble against simulator-owned counterparts"),
 "e1": ("sim/e1", "netsim: whole real ChainService (btcd peer/connmgr stack, block manager, work manager, stores, bbolt, caches) in a synctest bubble against event-driven simulated peers over a simulated transport"),
 "e5": ("sim/e5", "racesim: E1/E3 workloads free-running under the Go race detector"),
}
import glob, os
props = {os.path.basename(f)[:-5]: json.load(open(f)) for f in sorted(glob.glob('/verif/props.d/*.json'))}
TEXT = {}
for f in sorted(glob.glob('/verif/manifest.d/*.json')):
    d = json.load(open(f)); TEXT[os.path.basename(f)[:-5]] = (d["text"], d["note"], d.get("design_ref", ""))
hooks = subprocess.run("git -C /repo log --format=%h --grep='^verif hook'", shell=True, capture_output=True, text=True).stdout.split()
man = {
 "version": 1,
 "setup_cmd": "cd /verif && ./check --build-only",
 "hooks": {"guard": "verif",
  "enable": "go build tag: engines are compiled with `go1.26.8 test -c -tags verif` against /repo via module replace directives",
  "baseline_off_cmd": "/verif/baseline_off.sh", "source_commits": hooks[::-1], "add_only": True},
 "engines": [], "checks": [], "not_applicable": [],
 "notes": "Deterministic simulation with fault injection; see DESIGN.md. Exit 2 = build/watchdog/infrastructure trouble, never a VIOLATION. known_findings.json and known_findings.d/*.json list genuine defects: 28 repaired by fix: commits (status fixed, suppress nothing) and 6 recorded as known findings (C04 x4, C03, C06; each check prints a KNOWN-FINDING line when it meets one and exits 0)."
}
used = {}
for pid in sorted(TEXT):
    if pid not in props: continue
    cfg = props[pid]; text, note, ref = TEXT[pid]
    engs = cfg["engine"] if isinstance(cfg["engine"], list) else [cfg["engine"]]
    for e_ in engs:
        used.setdefault(e_, []).append(pid)
    man["checks"].append({
     "property_id": pid, "quick_cmd": "./check %s --tier quick" % pid, "thorough_cmd": "./check %s --tier thorough" % pid,
     "evidence_file": "/verif/evidence/%s.json" % pid, "replay_cmd_template": "./check %s --replay {path}" % pid,
     "engine": "+".join(engs), "level_claimed": {"category": cfg["level"], "text": text, "design_ref": ref},
     "level_note": note, "technique": cfg.get("technique", "deterministic simulation with fault injection (seeded decision tape, simulated faults/schedule, reference-model oracle)")})
for e, ps in sorted(used.items()):
    man["engines"].append({"name": e, "path": ENGINES.get(e, ("sim/"+e,))[0], "serves_properties": ps, "kind_free_text": ENGINES.get(e, (0, props[ps[0]].get("engine_text", "compsim: one real component in a synctest bubble against simulator-owned counterparts")))[1]})
allp = [json.loads(l)["id"] for l in open('/verif/properties.jsonl')]
NA = json.load(open('/verif/not_applicable.json')) if __import__('os').path.exists('/verif/not_applicable.json') else {}
for p in allp:
    if p not in [c["property_id"] for c in man["checks"]]:
        man["not_applicable"].append({"property_id": p, "reason": NA.get(p, "not claimed yet: its check is still under construction (build order in DESIGN.md 15.1)")})
json.dump(man, open('/verif/MANIFEST.json', 'w'), indent=1)
print("claimed:", [c["property_id"] for c in man["checks"]])
