#!/usr/bin/env python3-vt
import json,jsonschema,sys,os
jsonschema.validate(json.load(open('/verif/MANIFEST.json')),json.load(open('/root/.vp/MANIFEST.schema.json')));print('manifest ok')
s=json.load(open('/root/.vp/EVIDENCE.schema.json'))
man=json.load(open('/verif/MANIFEST.json'))
for c in man['checks']:
    p=c['evidence_file']
    if os.path.exists(p):
        jsonschema.validate(json.load(open(p)),s);print(c['property_id'],'evidence ok')
    else: print(c['property_id'],'evidence MISSING')
ps=json.load(open('/root/.vp/PROPERTIES.schema.json'))
ids=[json.loads(l)['id'] for l in open('/verif/properties.jsonl')]
claimed=[c['property_id'] for c in man['checks']]; na=[n['property_id'] for n in man.get('not_applicable',[])]
assert sorted(claimed+na)==sorted(ids),(claimed,na)
print('all properties accounted for')
