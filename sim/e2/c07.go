package e2

import (
	"fmt"
	"testing"

	"verif/sim/chainmodel"
	"verif/sim/core"
	"verif/sim/fault"
)

// syncTip re-derives the model tip node from the model list and stashes any
// branch that was dropped.
func (e *env) syncTip() {
	tipHash := e.m.Blocks[len(e.m.Blocks)-1].BlockHash()
	nt := e.tree.ByHash[tipHash]
	if nt == nil {
		e.rc.Infra("model tip %v not in tree", tipHash)
	}
	if nt != e.tip {
		fork := chainmodel.ForkPoint(e.tip, nt)
		if fork != e.tip {
			ch := e.tip.Chain()
			e.stash[fork.Hash] = append([]*chainmodel.Block(nil), ch[fork.Height+1:]...)
		}
		e.tip = nt
	}
}

func totalFired(d *fault.Disk) int {
	n := 0
	for _, v := range d.Fired {
		n += v
	}
	return n
}

// RunC07: append/rollback/reopen histories against the reference lists, in a
// fault-free configuration and in a fault-injecting one.
func RunC07(t *testing.T, rc *core.RunCtx) {
	e := newEnv(rc)
	defer e.close()
	tp := e.t
	faulty := tp.Chance(1, 2)
	maxOps := 24
	if rc.Tier == "thorough" {
		maxOps = 60
	}
	nOps := tp.Range(3, maxOps)
	rate := 3 + tp.Intn(8) // one fault per `rate` opportunities on average
	lastFault := ""
	if faulty {
		e.disk.Decide = func(kind, file string, n int) int {
			if !tp.Chance(1, rate) {
				return 0
			}
			lastFault = kind
			if kind == fault.KindWrite && n > 0 && tp.Chance(2, 3) {
				k := tp.Intn(n)
				if k == 0 {
					lastFault = kind + ".zero"
				} else {
					lastFault = kind + ".short"
				}
				return 2 + k
			}
			return 1
		}
	}
	rc.Logf("config faulty=%v ops=%d rate=1/%d", faulty, nOps, rate)
	sinceReopen := "fresh"
	interesting := 0
	for i := 0; i < nOps; i++ {
		w := tp.Intn(100)
		kind := opAppendBlocks
		switch {
		case w < 28:
			kind = opAppendBlocks
		case w < 50:
			kind = opAppendFilters
		case w < 60:
			kind = opRollbackBlocks
		case w < 66:
			kind = opRollbackFilter
		case w < 78:
			kind = opRollbackBoth
		case w < 84:
			kind = opReorg
		case w < 96:
			kind = opReopen
		default:
			kind = opBadRollback
		}
		if kind == opReopen {
			rc.Logf("op %d: reopen", i)
			if err := e.reopen(); err != nil {
				rc.Failf("reopen-failed", map[string]string{"after": sinceReopen}, "reopen after %s: %v", sinceReopen, err)
			}
			rc.Res.Steps++
			interesting++
			sinceReopen = "reopen"
			if p := CheckAgainstModel(e.st, e.m, tp); p != nil {
				rc.Failf("after-reopen:"+p.Clause, nil, "after reopen: %s", p.Msg)
			}
			rc.State(fmt.Sprintf("reopen|bt=%s|ft=%s", bucket(len(e.m.Blocks)-1), bucket(len(e.m.Filters)-1)))
			continue
		}
		o := e.genOp(kind)
		if o == nil {
			continue
		}
		rc.Logf("op %d: %s", i, o.label)
		rc.Res.Steps++
		outcome := "ok"
		for _, pr := range o.prims {
			before := totalFired(e.disk)
			lastFault = ""
			err := pr.call()
			fired := totalFired(e.disk) - before
			if err == nil {
				pr.apply(e.m)
				if pr.isRollback {
					sinceReopen = "rollback"
				} else if !zeroAppend(&op{prims: []prim{pr}}) {
					sinceReopen = "append"
				}
				if fired > 0 {
					rc.Logf("  %s succeeded despite %d injected fault(s)", pr.name, fired)
				}
				continue
			}
			rc.Logf("  %s failed: %v (faults fired: %d, last %s)", pr.name, err, fired, lastFault)
			if fired == 0 {
				rc.Failf("operation-failed-without-fault", map[string]string{"op": pr.name[:indexParen(pr.name)]},
					"%s (%s) failed with no injected fault: %v", pr.name, o.label, err)
			}
			rc.Fault(lastFault)
			if fired >= 2 {
				// The compensating action failed as well (e.g. commit
				// fault, then the clean-up truncate faulted too): no
				// implementation can restore the store, and the
				// property is read as promising nothing here.
				rc.Probe("multi_fault_call_run_ended")
				rc.State("multi-fault")
				return
			}
			if pr.isRollback {
				// A failed rollback carries no promise; stop here.
				rc.Probe("failed_rollback_run_ended")
				rc.State("failed-rollback")
				return
			}
			outcome = "append-failed"
			interesting++
			if p := CheckAgainstModel(e.st, e.m, tp); p != nil {
				rc.Failf("failed-append-changed-store", map[string]string{
					"fault": lastFault, "position": sinceReopen, "store": pr.name[:indexParen(pr.name)]},
					"%s reported failure (%s, first write since: %s) but the store is not as before: %s: %s",
					pr.name, lastFault, sinceReopen, p.Clause, p.Msg)
			}
			break
		}
		e.syncTip()
		if kind == opRollbackBlocks || kind == opRollbackBoth || kind == opRollbackFilter || kind == opReorg {
			interesting++
		}
		if p := CheckAgainstModel(e.st, e.m, tp); p != nil {
			rc.Failf(p.Clause, map[string]string{"after": opName(kind)}, "after %q: %s", o.label, p.Msg)
		}
		rc.State(fmt.Sprintf("%s|%s|bt=%s|ft=%s", opName(kind), outcome, bucket(len(e.m.Blocks)-1), bucket(len(e.m.Filters)-1)))
	}
	for k, v := range e.disk.Fired {
		rc.Res.Faults["fired:"+k] += v
	}
	rc.Res.Nontrivial = rc.Res.Steps >= 3 && interesting >= 1
	rc.Res.Sample = map[string]any{"faulty": faulty, "ops": rc.Res.Steps, "final_block_tip": len(e.m.Blocks) - 1,
		"final_filter_tip": len(e.m.Filters) - 1}
}

func indexParen(s string) int {
	for i := range s {
		if s[i] == '(' {
			return i
		}
	}
	return len(s)
}

func bucket(n int) string {
	switch {
	case n == 0:
		return "0"
	case n <= 2:
		return "1-2"
	case n <= 8:
		return "3-8"
	case n <= 32:
		return "9-32"
	default:
		return "33+"
	}
}

func opName(k int) string {
	return [...]string{"append-blocks", "append-filters", "rollback-blocks", "rollback-filter",
		"rollback-both", "reorg", "reopen", "bad-rollback"}[k]
}

// zeroAppend reports whether o appends nothing (which leaves the file offset
// where it was).
func zeroAppend(o *op) bool {
	return len(o.prims) == 1 && len(o.prims[0].name) > 3 && o.prims[0].name[len(o.prims[0].name)-3:] == "(0)"
}
