package e2

import (
	"os"
	"testing"

	"verif/sim/core"
)

func TestRun(t *testing.T) {
	defer RemoveTemplate()
	core.Main(t, map[string]core.EngineFunc{
		"C07": RunC07,
		"C08": RunC08,
	})
}

func TestMain(m *testing.M) {
	code := m.Run()
	RemoveTemplate()
	os.Exit(code)
}
