package e2

import (
	"fmt"
	"os"
	"path/filepath"
	"strings"
	"testing"

	"verif/sim/chainmodel"
	"verif/sim/core"
	"verif/sim/fault"
)

type image struct {
	dir   string
	label string
	sub   int
	prim  string
}

// cutPoints picks one byte length from each class of torn write: inside the
// first entry, exactly on an entry boundary, inside a later entry, one byte
// short of complete.
func cutPoints(n, entry int) []int {
	var c []int
	add := func(k int) {
		if k <= 0 || k >= n {
			return
		}
		for _, x := range c {
			if x == k {
				return
			}
		}
		c = append(c, k)
	}
	add(entry / 2)
	add(entry)
	add(entry + entry/3)
	add(n - 1)
	// sort ascending
	for i := 1; i < len(c); i++ {
		for j := i; j > 0 && c[j-1] > c[j]; j-- {
			c[j-1], c[j] = c[j], c[j-1]
		}
	}
	return c
}

func stepClass(label string) (file, step, tear string) {
	parts := strings.Split(label, ":")
	file = parts[0]
	if len(parts) > 1 {
		step = parts[1]
	}
	if step == "write.torn" && len(parts) > 2 {
		var k, n int
		fmt.Sscanf(parts[2], "%d/%d", &k, &n)
		e := 32
		if strings.Contains(file, "block") {
			e = 80
		}
		switch {
		case k%e == 0:
			tear = "entry-boundary"
		case k < e:
			tear = "inside-first-entry"
		default:
			tear = "inside-later-entry"
		}
	}
	return
}

// recordOp executes o with crash-image recording on and returns the images and
// the model states before/after each primitive.
func (e *env) recordOp(o *op) ([]image, []*Model) {
	var images []image
	states := []*Model{e.m.Clone()}
	cur, curName := 0, ""
	n := 0
	e.disk.CutPoints = cutPoints
	e.disk.Boundary = func(label string) {
		d := filepath.Join(e.rc.Dir, fmt.Sprintf("img-%d", n))
		n++
		if err := fault.CopyDir(e.dir, d); err != nil {
			e.rc.Infra("image copy: %v", err)
		}
		images = append(images, image{dir: d, label: label, sub: cur, prim: curName})
	}
	// The state before anything happened is a crash point too.
	e.disk.Boundary("none:before")
	for j, pr := range o.prims {
		cur, curName = j, pr.name[:indexParen(pr.name)]
		if err := pr.call(); err != nil {
			e.rc.Failf("operation-failed-without-fault", map[string]string{"op": curName},
				"%s in %q failed with no fault injected: %v", pr.name, o.label, err)
		}
		pr.apply(e.m)
		states = append(states, e.m.Clone())
	}
	e.disk.Boundary, e.disk.CutPoints = nil, nil
	e.syncTip()
	return images, states
}

// checkImage restarts on one crash image and applies the C08 oracle.
func (e *env) checkImage(im image, states []*Model, opLabel string) {
	rc := e.rc
	file, step, tear := stepClass(im.label)
	facts := map[string]string{"op": im.prim, "step": step}
	if tear != "" {
		facts["tear"] = tear
	}
	_ = file
	rc.State("img|" + im.prim + "|" + step + "|" + tear)
	rc.Probe("images")
	if tear != "" {
		rc.Fault("crash.torn-write." + tear)
	} else {
		rc.Fault("crash.after." + step)
	}
	disk := fault.NewDisk()
	st, err := Open(im.dir, disk, e.p)
	if err != nil {
		rc.Failf("restart-open-fails", facts, "crash at %q during %q (%s): restart fails: %v", im.label, opLabel, im.prim, err)
	}
	defer st.Close()
	c, p := ReadAll(st)
	if p != nil {
		f2 := copyFacts(facts)
		f2["problem"] = p.Clause
		rc.Failf("restart-inconsistent", f2, "crash at %q during %q (%s): after restart %s: %s", im.label, opLabel, im.prim, p.Clause, p.Msg)
	}
	if g := e.ghost(st, c); g != "" {
		f2 := copyFacts(facts)
		f2["problem"] = "off-chain-hash-found"
		rc.Failf("restart-inconsistent", f2, "crash at %q during %q (%s): after restart %s", im.label, opLabel, im.prim, g)
	}
	pre, post := states[im.sub], states[im.sub]
	if im.sub+1 < len(states) {
		post = states[im.sub+1]
	}
	var got *Model
	switch {
	case c.Equal(pre):
		got = pre
		rc.Probe("recovered_pre")
	case c.Equal(post):
		got = post
		rc.Probe("recovered_post")
	default:
		rc.Failf("restart-neither-pre-nor-post", facts,
			"crash at %q during %q (%s): recovered block tip %d filter tip %d; before step: %d/%d, after step: %d/%d",
			im.label, opLabel, im.prim, len(c.Blocks)-1, len(c.Filters)-1,
			len(pre.Blocks)-1, len(pre.Filters)-1, len(post.Blocks)-1, len(post.Filters)-1)
	}
	// Resumption: syncing continues from the recovered state. Append fresh
	// headers to both stores and read everything back.
	m := got.Clone()
	tipHash := m.Blocks[len(m.Blocks)-1].BlockHash()
	tipNode := e.tree.ByHash[tipHash]
	if tipNode == nil {
		rc.Infra("recovered tip not in tree")
	}
	save := e.st
	e.st = st
	defer func() { e.st = save }()
	blks := e.mineFresh(tipNode, 2)
	pa := e.primAppendBlocks(blks)
	if err := pa.call(); err != nil {
		rc.Failf("resume-append-fails", facts, "crash at %q during %q: append after restart fails: %v", im.label, opLabel, err)
	}
	pa.apply(m)
	chain := blks[1].Chain()
	k := len(m.Blocks) - len(m.Filters)
	if k > 3 {
		k = 3
	}
	pf := e.primAppendFilters(chain, len(m.Filters), k, true)
	if err := pf.call(); err != nil {
		rc.Failf("resume-append-fails", facts, "crash at %q during %q: filter append after restart fails: %v", im.label, opLabel, err)
	}
	pf.apply(m)
	c2, p := ReadAll(st)
	if p != nil {
		f2 := copyFacts(facts)
		f2["problem"] = p.Clause
		rc.Failf("resume-torn-or-shifted", f2, "crash at %q during %q (%s): after restart and further appends %s: %s",
			im.label, opLabel, im.prim, p.Clause, p.Msg)
	}
	if !c2.Equal(m) {
		rc.Failf("resume-torn-or-shifted", facts, "crash at %q during %q (%s): after restart and further appends the stores differ from recovered state + appended headers (block %d vs %d, filter %d vs %d)",
			im.label, opLabel, im.prim, len(c2.Blocks)-1, len(m.Blocks)-1, len(c2.Filters)-1, len(m.Filters)-1)
	}
	if g := e.ghost(st, c2); g != "" {
		f2 := copyFacts(facts)
		f2["problem"] = "off-chain-hash-found"
		rc.Failf("resume-torn-or-shifted", f2, "crash at %q during %q (%s): after restart and further appends %s", im.label, opLabel, im.prim, g)
	}
	// And a second restart must still agree.
	st.Close()
	st2, err := Open(im.dir, fault.NewDisk(), e.p)
	if err != nil {
		rc.Failf("restart-open-fails", facts, "second restart after crash at %q during %q: %v", im.label, opLabel, err)
	}
	defer st2.Close()
	c3, p := ReadAll(st2)
	if p != nil || !c3.Equal(m) {
		rc.Failf("resume-torn-or-shifted", facts, "second restart after crash at %q during %q disagrees with resumed state", im.label, opLabel)
	}
}

// ghost: the hash index must not know any header of this run that is not on
// the chain the store reports by height (an interrupted append or rollback
// leaves no entries behind).
func (e *env) ghost(st *Stores, c *Contents) string {
	for hash, b := range e.tree.ByHash {
		if int(b.Height) < len(c.Blocks) && c.Blocks[b.Height].BlockHash() == hash {
			continue
		}
		hash := hash
		if h, err := st.Block.HeightFromHash(&hash); err == nil {
			return fmt.Sprintf("the index maps %v (a header of this run that is not on the stored chain) to height %d", hash, h)
		}
	}
	return ""
}

func copyFacts(f map[string]string) map[string]string {
	o := map[string]string{}
	for k, v := range f {
		o[k] = v
	}
	return o
}

// RunC08: a generated fault-free history, then one operation executed with a
// crash image taken at every durable-step boundary and inside every file write;
// each image is restarted and checked.
func RunC08(t *testing.T, rc *core.RunCtx) {
	e := newEnv(rc)
	defer e.close()
	tp := e.t
	// Prefix history.
	nPre := tp.Range(1, 7)
	for i := 0; i < nPre; i++ {
		kind := []int{opAppendBlocks, opAppendBlocks, opAppendFilters, opRollbackBoth, opReopen, opReorg, opAppendFilters}[tp.Intn(7)]
		if i == 0 {
			kind = opAppendBlocks
		}
		if kind == opReopen {
			rc.Logf("pre %d: reopen", i)
			if err := e.reopen(); err != nil {
				rc.Failf("reopen-failed", nil, "fault-free reopen failed: %v", err)
			}
			continue
		}
		o := e.genOp(kind)
		if o == nil {
			continue
		}
		rc.Logf("pre %d: %s", i, o.label)
		for _, pr := range o.prims {
			if err := pr.call(); err != nil {
				rc.Failf("operation-failed-without-fault", map[string]string{"op": pr.name[:indexParen(pr.name)]},
					"%s failed with no fault: %v", pr.name, err)
			}
			pr.apply(e.m)
		}
		e.syncTip()
	}
	nCrash := 1
	if rc.Tier == "thorough" {
		nCrash = 3
	}
	for ci := 0; ci < nCrash; ci++ {
		var o *op
		for tries := 0; o == nil && tries < 20; tries++ {
			kind := []int{opAppendBlocks, opAppendFilters, opRollbackBlocks, opRollbackFilter, opRollbackBoth, opReorg}[tp.Intn(6)]
			o = e.genOp(kind)
			if o != nil && len(o.prims) == 1 && strings.Contains(o.prims[0].name, "(0)") {
				o = nil
			}
		}
		if o == nil {
			return
		}
		rc.Logf("crash op %d: %s", ci, o.label)
		images, states := e.recordOp(o)
		rc.Res.Steps += len(images)
		for _, im := range images {
			rc.Logf("  image %s (sub-op %d %s)", im.label, im.sub, im.prim)
			e.checkImage(im, states, o.label)
			os.RemoveAll(im.dir)
		}
		rc.Res.Nontrivial = true
		rc.Res.Sample = map[string]any{"op": o.label, "images": len(images), "first_labels": labelsOf(images, 6)}
	}
	_ = chainmodel.Work
}

func labelsOf(ims []image, n int) []string {
	var out []string
	for i, im := range ims {
		if i >= n {
			break
		}
		out = append(out, im.label)
	}
	return out
}
