package e2

import (
	"fmt"
	"path/filepath"
	"time"

	"github.com/btcsuite/btcd/chaincfg/v2"
	"github.com/btcsuite/btcd/chainhash/v2"
	"github.com/lightninglabs/neutrino/headerfs"

	"verif/sim/chainmodel"
	"verif/sim/core"
	"verif/sim/fault"
)

type env struct {
	rc   *core.RunCtx
	t    *core.Tape
	p    *chaincfg.Params
	tree *chainmodel.Tree
	tip  *chainmodel.Block
	st   *Stores
	m    *Model
	disk *fault.Disk
	dir  string
	// stash holds rolled-back branches (lists of blocks) by parent hash so
	// that the same headers can be re-added later.
	stash map[chainhash.Hash][]*chainmodel.Block
	salt  uint32
}

func newEnv(rc *core.RunCtx) *env {
	tmpl, err := Template()
	if err != nil {
		rc.Infra("template: %v", err)
	}
	e := &env{rc: rc, t: rc.Tape, stash: map[chainhash.Hash][]*chainmodel.Block{}}
	e.dir = filepath.Join(rc.Dir, "data")
	if err := fault.CopyDir(tmpl, e.dir); err != nil {
		rc.Infra("copy template: %v", err)
	}
	// Store behaviour does not depend on consensus parameters; keep the
	// template's (regtest genesis) but vary retargeting so headers differ.
	e.p = chainmodel.NewParams(chainmodel.ParamOpts{RetargetInterval: []int{0, 8, 16}[e.t.Intn(3)]})
	e.tree = chainmodel.NewTree(e.p)
	e.tip = e.tree.Genesis
	e.m = &Model{Blocks: e.tip.Headers(), Gone: map[chainhash.Hash]bool{}}
	e.m.Filters = append(e.m.Filters, e.tree.FilterHeader(e.tree.Genesis))
	e.disk = fault.NewDisk()
	e.st, err = Open(e.dir, e.disk, e.p)
	if err != nil {
		rc.Infra("open fresh stores: %v", err)
	}
	return e
}

func (e *env) close() {
	if e.st != nil {
		e.st.Close()
	}
}

// mine produces k blocks extending the model tip, re-using a stashed
// rolled-back branch (same headers again) when the tape says so.
func (e *env) mine(k int) []*chainmodel.Block {
	var out []*chainmodel.Block
	parent := e.tip
	if br, ok := e.stash[parent.Hash]; ok && len(br) > 0 && e.t.Chance(1, 2) {
		e.rc.Probe("readd_rolled_back")
		for len(out) < k && len(br) > 0 {
			out = append(out, br[0])
			br = br[1:]
		}
		delete(e.stash, parent.Hash)
		if len(out) > 0 {
			parent = out[len(out)-1]
		}
	}
	for len(out) < k {
		e.salt++
		b := e.tree.Extend(parent, chainmodel.MineOpts{
			Time: parent.Hdr.Timestamp.Add(time.Duration(1+e.t.Intn(20)) * time.Minute),
			Salt: e.salt,
		})
		out = append(out, b)
		parent = b
	}
	return out
}

// prim is one primitive store call with its effect on the model.
type prim struct {
	name  string
	call  func() error
	apply func(m *Model)
	// isRollback marks calls for which a reported failure carries no
	// promise about the store's state.
	isRollback bool
}

func (e *env) primAppendBlocks(blks []*chainmodel.Block) prim {
	hdrs := make([]headerfs.BlockHeader, len(blks))
	for i, b := range blks {
		h := b.Hdr
		hdrs[i] = headerfs.BlockHeader{BlockHeader: &h, Height: uint32(b.Height)}
	}
	return prim{
		name: fmt.Sprintf("block.append(%d)", len(blks)),
		call: func() error { return e.st.Block.WriteHeaders(hdrs...) },
		apply: func(m *Model) {
			for _, b := range blks {
				m.Blocks = append(m.Blocks, b.Hdr)
				delete(m.Gone, b.Hash)
			}
		},
	}
}

func (e *env) primAppendFilters(chain []*chainmodel.Block, from, k int, managerStyle bool) prim {
	hdrs := make([]headerfs.FilterHeader, k)
	fhs := make([]chainhash.Hash, k)
	for i := 0; i < k; i++ {
		b := chain[from+i]
		fhs[i] = e.tree.FilterHeader(b)
		hdrs[i] = headerfs.FilterHeader{FilterHash: fhs[i]}
		if !managerStyle || i == k-1 {
			hdrs[i].HeaderHash = b.Hash
			hdrs[i].Height = uint32(b.Height)
		}
	}
	return prim{
		name:  fmt.Sprintf("filter.append(%d)", k),
		call:  func() error { return e.st.Filter.WriteHeaders(hdrs...) },
		apply: func(m *Model) { m.Filters = append(m.Filters, fhs...) },
	}
}

func (e *env) primRollbackBlocks(n int, single bool) prim {
	return prim{
		name:       fmt.Sprintf("block.rollback(%d)", n),
		isRollback: true,
		call: func() error {
			var bs *headerfs.BlockStamp
			var err error
			if single && n == 1 {
				bs, err = e.st.Block.RollbackLastBlock()
			} else {
				bs, err = e.st.Block.RollbackBlockHeaders(uint32(n))
			}
			if err != nil {
				return err
			}
			// The returned stamp must describe the new tip.
			nh := len(e.m.Blocks) - 1 - n
			if n > 0 && (int(bs.Height) != nh || bs.Hash != e.m.Blocks[nh].BlockHash() ||
				!bs.Timestamp.Equal(e.m.Blocks[nh].Timestamp)) {
				e.rc.Failf("rollback-stamp-wrong", nil, "rollback(%d) returned height %d hash %v, new tip is %d %v",
					n, bs.Height, bs.Hash, nh, e.m.Blocks[nh].BlockHash())
			}
			return nil
		},
		apply: func(m *Model) {
			for i := 0; i < n; i++ {
				last := m.Blocks[len(m.Blocks)-1]
				m.Gone[last.BlockHash()] = true
				m.Blocks = m.Blocks[:len(m.Blocks)-1]
			}
		},
	}
}

func (e *env) primRollbackFilter(newTipBlock chainhash.Hash) prim {
	return prim{
		name:       "filter.rollback(1)",
		isRollback: true,
		call: func() error {
			bs, err := e.st.Filter.RollbackLastBlock(&newTipBlock)
			if err != nil {
				return err
			}
			nh := len(e.m.Filters) - 2
			if int(bs.Height) != nh || bs.Hash != e.m.Filters[nh] {
				e.rc.Failf("rollback-stamp-wrong", nil, "filter rollback returned height %d hash %v, new tip is %d %v",
					bs.Height, bs.Hash, nh, e.m.Filters[nh])
			}
			return nil
		},
		apply: func(m *Model) { m.Filters = m.Filters[:len(m.Filters)-1] },
	}
}

// opKind enumerates generated operations.
const (
	opAppendBlocks = iota
	opAppendFilters
	opRollbackBlocks
	opRollbackFilter
	opRollbackBoth
	opReorg
	opReopen
	opBadRollback
	numOps
)

// genOp draws one operation and returns its primitives (possibly none if the
// drawn operation is not applicable in the current state) and a label. The
// model tip (e.tip) and stash are updated by commit() after success.
type op struct {
	kind   int
	label  string
	prims  []prim
	commit func()
}

func (e *env) genOp(kind int) *op {
	bt := len(e.m.Blocks) - 1
	ft := len(e.m.Filters) - 1
	chain := func() []*chainmodel.Block { return e.tip.Chain() }
	switch kind {
	case opAppendBlocks:
		k := e.t.Intn(9)
		blks := e.mine(k)
		return &op{kind: kind, label: fmt.Sprintf("append %d block headers at %d", k, bt+1),
			prims: []prim{e.primAppendBlocks(blks)},
			commit: func() {
				if k > 0 {
					e.tip = blks[k-1]
				}
			}}
	case opAppendFilters:
		if bt == ft {
			return nil
		}
		k := 1 + e.t.Intn(min(8, bt-ft))
		if e.t.Chance(1, 10) {
			k = 0
		}
		return &op{kind: kind, label: fmt.Sprintf("append %d filter headers at %d", k, ft+1),
			prims: []prim{e.primAppendFilters(chain(), ft+1, k, e.t.Chance(1, 2))}, commit: func() {}}
	case opRollbackBlocks:
		if bt == ft {
			return nil
		}
		n := 1 + e.t.Intn(bt-ft)
		if e.t.Chance(1, 10) {
			n = 0
		}
		return &op{kind: kind, label: fmt.Sprintf("roll back %d block headers from %d", n, bt),
			prims:  []prim{e.primRollbackBlocks(n, e.t.Chance(1, 2))},
			commit: func() { e.dropTip(n) }}
	case opRollbackFilter:
		if ft == 0 {
			return nil
		}
		return &op{kind: kind, label: fmt.Sprintf("roll back filter header %d", ft),
			prims: []prim{e.primRollbackFilter(e.m.Blocks[ft-1].BlockHash())}, commit: func() {}}
	case opRollbackBoth, opReorg:
		if bt == 0 {
			return nil
		}
		depth := 1 + e.t.Intn(min(bt, 6))
		if e.t.Chance(1, 8) {
			depth = bt // to genesis
		}
		// The block manager's order: for each height from the tip
		// down, filter store first (if it has reached this height),
		// then block store.
		var ps []prim
		f := ft
		for h := bt; h > bt-depth; h-- {
			if h <= f {
				ps = append(ps, e.primRollbackFilter(e.m.Blocks[h-1].BlockHash()))
				f--
			}
			ps = append(ps, e.primRollbackBlocks(1, true))
		}
		o := &op{kind: kind, label: fmt.Sprintf("roll back both stores %d deep from %d (filter tip %d)", depth, bt, ft),
			prims: ps}
		if kind == opRollbackBoth {
			o.commit = func() { e.dropTip(depth) }
			return o
		}
		// Reorg: then write a competing branch.
		k := 1 + e.t.Intn(depth+2)
		fork := e.tip.Ancestor(int32(bt - depth))
		saveTip := e.tip
		e.tip = fork
		blks := e.mineFresh(fork, k)
		e.tip = saveTip
		// First header alone (as the manager does), then the rest.
		ps = append(ps, e.primAppendBlocks(blks[:1]))
		if k > 1 {
			ps = append(ps, e.primAppendBlocks(blks[1:]))
		}
		o.prims = ps
		o.label = fmt.Sprintf("reorg %d deep from %d to a %d-header branch (filter tip %d)", depth, bt, k, ft)
		o.commit = func() { e.dropTip(depth); e.tip = blks[k-1] }
		return o
	case opBadRollback:
		// Roll back to or past genesis: must be refused and change nothing.
		if ft == 0 && e.t.Chance(1, 2) {
			// The filter store at genesis: nothing to roll back.
			gh := e.m.Blocks[0].BlockHash()
			return &op{kind: kind, label: "roll back the filter store at genesis (must be refused)",
				prims: []prim{{name: "filter.rollback(at genesis)", call: func() error {
					_, err := e.st.Filter.RollbackLastBlock(&gh)
					if err == nil {
						e.rc.Failf("rollback-past-genesis-accepted", map[string]string{"store": "filter"},
							"filter-header rollback with the filter tip at genesis succeeded")
					}
					return nil
				}, apply: func(*Model) {}}}, commit: func() {}}
		}
		n := bt + 1 + e.t.Intn(3)
		return &op{kind: kind, label: fmt.Sprintf("roll back %d block headers with tip %d (must be refused)", n, bt),
			prims: []prim{{name: "block.rollback(too many)", call: func() error {
				_, err := e.st.Block.RollbackBlockHeaders(uint32(n))
				if err == nil {
					e.rc.Failf("rollback-past-genesis-accepted", nil, "rollback of %d with tip %d succeeded", n, bt)
				}
				return nil
			}, apply: func(*Model) {}}}, commit: func() {}}
	}
	return nil
}

func (e *env) mineFresh(parent *chainmodel.Block, k int) []*chainmodel.Block {
	var out []*chainmodel.Block
	for len(out) < k {
		e.salt++
		b := e.tree.Extend(parent, chainmodel.MineOpts{
			Time: parent.Hdr.Timestamp.Add(time.Duration(1+e.t.Intn(20)) * time.Minute), Salt: e.salt})
		out = append(out, b)
		parent = b
	}
	return out
}

// dropTip moves the model tip back n blocks, stashing the dropped branch.
func (e *env) dropTip(n int) {
	if n <= 0 {
		return
	}
	ch := e.tip.Chain()
	newTip := ch[len(ch)-1-n]
	e.stash[newTip.Hash] = append([]*chainmodel.Block(nil), ch[len(ch)-n:]...)
	e.tip = newTip
}

// reopen closes and reopens database and stores.
func (e *env) reopen() error {
	e.st.Close()
	saveD, saveB := e.disk.Decide, e.disk.Boundary
	e.disk.Decide, e.disk.Boundary = nil, nil
	st, err := Open(e.dir, e.disk, e.p)
	e.disk.Decide, e.disk.Boundary = saveD, saveB
	if err != nil {
		e.st = nil
		return err
	}
	e.st = st
	return nil
}

func min(a, b int) int {
	if a < b {
		return a
	}
	return b
}
