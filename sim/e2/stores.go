// Package e2 is engine E2 (storesim): the real headerfs stores, real bbolt and
// the real chainimport code, driven by tape-generated operation histories
// against a plain in-memory reference model, with injected file/database
// faults and crash-image enumeration at every durable-step boundary.
package e2

import (
	"bytes"
	"fmt"
	"os"
	"path/filepath"
	"sync"
	"time"

	"github.com/btcsuite/btcd/chaincfg/v2"
	"github.com/btcsuite/btcd/chainhash/v2"
	"github.com/btcsuite/btcd/wire/v2"
	"github.com/btcsuite/btcwallet/walletdb"
	_ "github.com/btcsuite/btcwallet/walletdb/bdb"
	"github.com/lightninglabs/neutrino/headerfs"

	"verif/sim/chainmodel"
	"verif/sim/core"
	"verif/sim/fault"
)

const dbName = "neutrino.db"

var (
	tmplOnce sync.Once
	tmplDir  string
	tmplErr  error
)

// Template returns a directory holding a freshly initialised database and both
// header stores (genesis only) for regtest-genesis parameters. Creating the
// header index costs ~0.5 s (65 536 sub-buckets), so runs copy this instead.
func Template() (string, error) {
	tmplOnce.Do(func() {
		root := os.Getenv("VERIF_SCRATCH")
		if root == "" {
			root = "/dev/shm"
			if _, err := os.Stat(root); err != nil {
				root = os.TempDir()
			}
		}
		dir, err := os.MkdirTemp(root, "vtmpl-")
		if err != nil {
			tmplErr = err
			return
		}
		headerfs.VerifFileWrapper = nil
		db, err := walletdb.Create("bdb", filepath.Join(dir, dbName), true, 10*time.Second, false)
		if err != nil {
			tmplErr = err
			return
		}
		p := chainmodel.NewParams(chainmodel.ParamOpts{})
		if _, err = headerfs.NewBlockHeaderStore(dir, db, p); err != nil {
			tmplErr = err
			return
		}
		if _, err = headerfs.NewFilterHeaderStore(dir, db, headerfs.RegularFilter, p, nil); err != nil {
			tmplErr = err
			return
		}
		if err = db.Close(); err != nil {
			tmplErr = err
			return
		}
		tmplDir = dir
	})
	return tmplDir, tmplErr
}

// RemoveTemplate deletes the template directory (called at process end).
func RemoveTemplate() {
	if tmplDir != "" {
		os.RemoveAll(tmplDir)
	}
}

// Stores is one opened data directory.
type Stores struct {
	Dir    string
	Disk   *fault.Disk
	rawDB  walletdb.DB
	DB     walletdb.DB
	Block  headerfs.BlockHeaderStore
	Filter headerfs.FilterHeaderStore
}

// Open opens the database and both stores in dir through disk's wrappers.
func Open(dir string, disk *fault.Disk, p *chaincfg.Params) (*Stores, error) {
	raw, err := walletdb.Open("bdb", filepath.Join(dir, dbName), true, 10*time.Second, false)
	if err != nil {
		return nil, fmt.Errorf("open db: %w", err)
	}
	s := &Stores{Dir: dir, Disk: disk, rawDB: raw, DB: disk.WrapDB(raw)}
	headerfs.VerifFileWrapper = disk.WrapFile
	s.Block, err = headerfs.NewBlockHeaderStore(dir, s.DB, p)
	if err != nil {
		s.Close()
		return nil, fmt.Errorf("open block store: %w", err)
	}
	s.Filter, err = headerfs.NewFilterHeaderStore(dir, s.DB, headerfs.RegularFilter, p, nil)
	if err != nil {
		s.Close()
		return nil, fmt.Errorf("open filter store: %w", err)
	}
	return s, nil
}

// Close closes files and database.
func (s *Stores) Close() {
	s.Disk.CloseFiles()
	if s.rawDB != nil {
		s.rawDB.Close()
		s.rawDB = nil
	}
}

// Model is the plain in-memory reference: two lists indexed by height.
type Model struct {
	Blocks  []wire.BlockHeader
	Filters []chainhash.Hash
	// Gone holds hashes of headers that were rolled back and not re-added.
	Gone map[chainhash.Hash]bool
}

// Clone copies the model.
func (m *Model) Clone() *Model {
	c := &Model{Blocks: append([]wire.BlockHeader(nil), m.Blocks...),
		Filters: append([]chainhash.Hash(nil), m.Filters...), Gone: map[chainhash.Hash]bool{}}
	for k := range m.Gone {
		c.Gone[k] = true
	}
	return c
}

// Contents is what can be read back from the stores.
type Contents struct {
	Blocks  []wire.BlockHeader
	Filters []chainhash.Hash
}

// Equal compares with a model state.
func (c *Contents) Equal(m *Model) bool {
	return blocksEqual(c.Blocks, m.Blocks) && filtersEqual(c.Filters, m.Filters)
}

func blocksEqual(a, b []wire.BlockHeader) bool {
	if len(a) != len(b) {
		return false
	}
	for i := range a {
		if a[i].BlockHash() != b[i].BlockHash() {
			return false
		}
	}
	return true
}

func filtersEqual(a, b []chainhash.Hash) bool {
	if len(a) != len(b) {
		return false
	}
	for i := range a {
		if a[i] != b[i] {
			return false
		}
	}
	return true
}

func hdrBytes(h *wire.BlockHeader) []byte {
	var b bytes.Buffer
	h.Serialize(&b)
	return b.Bytes()
}

// Problem is a self-consistency failure of the read API.
type Problem struct {
	Clause string
	Msg    string
}

// ReadAll reads everything back through the public read API and checks that
// the answers agree with one another (tip == by-height == by-hash; nothing
// readable above the tip). It returns what the stores hold.
func ReadAll(s *Stores) (*Contents, *Problem) {
	c := &Contents{}
	tipHdr, tipH, err := s.Block.ChainTip()
	if err != nil {
		return nil, &Problem{"block-tip-unreadable", err.Error()}
	}
	for h := uint32(0); h <= tipH; h++ {
		hdr, err := s.Block.FetchHeaderByHeight(h)
		if err != nil {
			return nil, &Problem{"block-by-height-unreadable", fmt.Sprintf("height %d of %d: %v", h, tipH, err)}
		}
		c.Blocks = append(c.Blocks, *hdr)
		hash := hdr.BlockHash()
		hdr2, h2, err := s.Block.FetchHeader(&hash)
		if err != nil {
			return nil, &Problem{"block-by-hash-missing", fmt.Sprintf("height %d hash %v: %v", h, hash, err)}
		}
		if h2 != h || hdr2.BlockHash() != hash {
			return nil, &Problem{"block-by-hash-disagrees", fmt.Sprintf("height %d: by-hash says height %d hash %v", h, h2, hdr2.BlockHash())}
		}
		h3, err := s.Block.HeightFromHash(&hash)
		if err != nil || h3 != h {
			return nil, &Problem{"block-height-from-hash-disagrees", fmt.Sprintf("height %d: got %d, %v", h, h3, err)}
		}
		if h > 0 && hdr.PrevBlock != c.Blocks[h-1].BlockHash() {
			return nil, &Problem{"block-chain-broken", fmt.Sprintf("height %d does not link to %d", h, h-1)}
		}
	}
	if tipHdr.BlockHash() != c.Blocks[tipH].BlockHash() {
		return nil, &Problem{"block-tip-disagrees", fmt.Sprintf("tip %v vs by-height %v", tipHdr.BlockHash(), c.Blocks[tipH].BlockHash())}
	}
	if hdr, err := s.Block.FetchHeaderByHeight(tipH + 1); err == nil {
		return nil, &Problem{"block-readable-above-tip", fmt.Sprintf("height %d readable: %v", tipH+1, hdr.BlockHash())}
	}

	ftip, ftipH, err := s.Filter.ChainTip()
	if err != nil {
		return nil, &Problem{"filter-tip-unreadable", err.Error()}
	}
	if ftipH > tipH {
		return nil, &Problem{"filter-ahead-of-block", fmt.Sprintf("filter tip %d > block tip %d", ftipH, tipH)}
	}
	for h := uint32(0); h <= ftipH; h++ {
		fh, err := s.Filter.FetchHeaderByHeight(h)
		if err != nil {
			return nil, &Problem{"filter-by-height-unreadable", fmt.Sprintf("height %d of %d: %v", h, ftipH, err)}
		}
		c.Filters = append(c.Filters, *fh)
		bh := c.Blocks[h].BlockHash()
		fh2, err := s.Filter.FetchHeader(&bh)
		if err != nil || *fh2 != *fh {
			return nil, &Problem{"filter-by-hash-disagrees", fmt.Sprintf("height %d: %v", h, err)}
		}
	}
	if *ftip != c.Filters[ftipH] {
		return nil, &Problem{"filter-tip-disagrees", fmt.Sprintf("tip %v vs by-height %v", ftip, c.Filters[ftipH])}
	}
	if fh, err := s.Filter.FetchHeaderByHeight(ftipH + 1); err == nil {
		return nil, &Problem{"filter-readable-above-tip", fmt.Sprintf("height %d readable: %v", ftipH+1, fh)}
	}
	return c, nil
}

// CheckAgainstModel compares the full read-back, ancestor ranges, locator and
// rolled-back lookups with the model.
func CheckAgainstModel(s *Stores, m *Model, tape *core.Tape) *Problem {
	c, p := ReadAll(s)
	if p != nil {
		return p
	}
	if !blocksEqual(c.Blocks, m.Blocks) {
		return &Problem{"block-contents-differ", fmt.Sprintf("store has %d headers (tip %v), model has %d (tip %v)",
			len(c.Blocks), c.Blocks[len(c.Blocks)-1].BlockHash(), len(m.Blocks), m.Blocks[len(m.Blocks)-1].BlockHash())}
	}
	if !filtersEqual(c.Filters, m.Filters) {
		return &Problem{"filter-contents-differ", fmt.Sprintf("store has %d filter headers, model has %d",
			len(c.Filters), len(m.Filters))}
	}
	for g := range m.Gone {
		g := g
		if h, err := s.Block.HeightFromHash(&g); err == nil {
			return &Problem{"rolled-back-still-found", fmt.Sprintf("hash %v still maps to height %d", g, h)}
		}
		if _, _, err := s.Block.FetchHeader(&g); err == nil {
			return &Problem{"rolled-back-still-found", fmt.Sprintf("hash %v still fetchable", g)}
		}
	}
	// Ancestor ranges.
	tipH := uint32(len(m.Blocks) - 1)
	for i := 0; i < 2; i++ {
		end := uint32(tape.Intn(int(tipH) + 1))
		n := uint32(tape.Intn(int(end) + 1))
		eh := m.Blocks[end].BlockHash()
		hdrs, start, err := s.Block.FetchHeaderAncestors(n, &eh)
		if err != nil || start != end-n || len(hdrs) != int(n)+1 {
			return &Problem{"block-ancestors-wrong", fmt.Sprintf("n=%d end=%d: start=%d len=%d err=%v", n, end, start, len(hdrs), err)}
		}
		for j := range hdrs {
			if hdrs[j].BlockHash() != m.Blocks[int(start)+j].BlockHash() {
				return &Problem{"block-ancestors-wrong", fmt.Sprintf("n=%d end=%d entry %d differs", n, end, j)}
			}
		}
		if end < uint32(len(m.Filters)) {
			fhs, fstart, err := s.Filter.FetchHeaderAncestors(n, &eh)
			if err != nil || fstart != end-n || len(fhs) != int(n)+1 {
				return &Problem{"filter-ancestors-wrong", fmt.Sprintf("n=%d end=%d: start=%d len=%d err=%v", n, end, fstart, len(fhs), err)}
			}
			for j := range fhs {
				if fhs[j] != m.Filters[int(fstart)+j] {
					return &Problem{"filter-ancestors-wrong", fmt.Sprintf("n=%d end=%d entry %d differs", n, end, j)}
				}
			}
		}
	}
	// Ranges that reach outside what is stored must be refused, not answered
	// with made-up entries: more ancestors than the stop block has, and (when
	// the filter store lags) filter-header ancestors of a block above the
	// filter tip.
	{
		end := uint32(tape.Intn(int(tipH) + 1))
		eh := m.Blocks[end].BlockHash()
		if hdrs, start, err := s.Block.FetchHeaderAncestors(end+1+uint32(tape.Intn(3)), &eh); err == nil {
			return &Problem{"block-ancestors-out-of-range-answered", fmt.Sprintf("asked for more ancestors than block %d has: got %d headers from height %d", end, len(hdrs), start)}
		}
		if len(m.Filters) < len(m.Blocks) {
			above := uint32(len(m.Filters) + tape.Intn(len(m.Blocks)-len(m.Filters)))
			ah := m.Blocks[above].BlockHash()
			if fhs, start, err := s.Filter.FetchHeaderAncestors(uint32(tape.Intn(int(above)+1)), &ah); err == nil {
				return &Problem{"filter-ancestors-above-tip-answered", fmt.Sprintf("stop block %d is above the filter tip %d: got %d filter headers from height %d", above, len(m.Filters)-1, len(fhs), start)}
			}
		}
	}
	// Locator: first entry is the tip, heights strictly decrease, every
	// entry is the model's hash at some height, and it ends at genesis.
	loc, err := s.Block.LatestBlockLocator()
	if err != nil || len(loc) == 0 {
		return &Problem{"locator-wrong", fmt.Sprintf("len=%d err=%v", len(loc), err)}
	}
	idx := map[chainhash.Hash]int{}
	for h := range m.Blocks {
		idx[m.Blocks[h].BlockHash()] = h
	}
	last := len(m.Blocks)
	for i, lh := range loc {
		h, ok := idx[*lh]
		if !ok || h >= last {
			return &Problem{"locator-wrong", fmt.Sprintf("entry %d (%v) height %d ok=%v prev=%d", i, lh, h, ok, last)}
		}
		if i == 0 && h != len(m.Blocks)-1 {
			return &Problem{"locator-wrong", fmt.Sprintf("first entry at height %d, tip is %d", h, len(m.Blocks)-1)}
		}
		last = h
	}
	if last != 0 && len(loc) < wire.MaxBlockLocatorsPerMsg {
		return &Problem{"locator-wrong", fmt.Sprintf("ends at height %d, not genesis", last)}
	}
	return nil
}
