// Package fault is the simulated disk: fault-injecting wrappers in front of the
// real flat files (through the headerfs.File seam, hook H1) and the real bbolt
// database (through the walletdb.DB seam), plus crash-image recording at every
// durable-step boundary. Crash model: process death — every completed call is
// visible in order, an in-flight write may be cut at any byte length; bbolt's
// own commit atomicity is trusted.
package fault

import (
	"errors"
	"fmt"
	"io"
	"os"
	"path/filepath"
	"strings"

	"github.com/btcsuite/btcwallet/walletdb"
	"github.com/lightninglabs/neutrino/headerfs"
)

// ErrInjected is the error every injected fault returns.
var ErrInjected = errors.New("verif: injected I/O fault")

// Decider is asked, at every point where a fault may be injected, whether to
// inject it. kind is one of the Kind* constants; n is the size of the pending
// write (0 otherwise). It returns the fault mode: 0 none, 1 fail outright,
// 2+k short write of k bytes (only for KindWrite).
type Decider func(kind string, file string, n int) int

const (
	KindWrite    = "file.write"
	KindTruncate = "file.truncate"
	KindSync     = "file.sync"
	KindCommit   = "db.commit"
)

// Disk owns the wrappers of one simulated data directory.
type Disk struct {
	// Decide injects faults; nil means none.
	Decide Decider
	// Boundary, when non-nil, is called after every durable step and at
	// every cut point inside a write; the harness copies the directory
	// there. label describes the step.
	Boundary func(label string)
	// CutPoints chooses the byte lengths at which an in-flight write of n
	// bytes with the given entry size is cut for crash images.
	CutPoints func(n, entry int) []int
	// Fired counts injected faults by kind.
	Fired map[string]int
	// Steps counts durable steps seen.
	Steps int

	files []*File
}

// NewDisk returns a Disk with no faults and no recording.
func NewDisk() *Disk { return &Disk{Fired: map[string]int{}} }

// CloseFiles closes every file opened through the wrapper (the stores have no
// Close of their own).
func (d *Disk) CloseFiles() {
	for _, f := range d.files {
		f.inner.Close()
	}
	d.files = nil
}

func entrySize(name string) int {
	if strings.Contains(filepath.Base(name), "block_headers") {
		return 80
	}
	return 32
}

func (d *Disk) decide(kind, file string, n int) int {
	if d.Decide == nil {
		return 0
	}
	m := d.Decide(kind, file, n)
	if m != 0 {
		d.Fired[kind]++
	}
	return m
}

func (d *Disk) boundary(label string) {
	d.Steps++
	if d.Boundary != nil {
		d.Boundary(label)
	}
}

// File wraps a header flat file.
type File struct {
	d     *Disk
	inner headerfs.File
	base  string
}

// WrapFile is installed as headerfs.VerifFileWrapper.
func (d *Disk) WrapFile(f headerfs.File) headerfs.File {
	w := &File{d: d, inner: f, base: filepath.Base(f.Name())}
	d.files = append(d.files, w)
	return w
}

func (f *File) Read(p []byte) (int, error)                { return f.inner.Read(p) }
func (f *File) Close() error                              { return f.inner.Close() }
func (f *File) Seek(o int64, w int) (int64, error)        { return f.inner.Seek(o, w) }
func (f *File) ReadAt(p []byte, off int64) (int, error)   { return f.inner.ReadAt(p, off) }
func (f *File) Stat() (os.FileInfo, error)                { return f.inner.Stat() }
func (f *File) Name() string                              { return f.inner.Name() }

func (f *File) Write(p []byte) (int, error) {
	switch m := f.d.decide(KindWrite, f.base, len(p)); {
	case m == 1:
		return 0, ErrInjected
	case m >= 2:
		k := m - 2
		if k >= len(p) {
			k = len(p) - 1
		}
		if k < 0 {
			k = 0
		}
		n, err := f.inner.Write(p[:k])
		if err != nil {
			return n, err
		}
		f.d.boundary(fmt.Sprintf("%s:write.short:%d/%d", f.base, k, len(p)))
		return n, ErrInjected
	}
	if f.d.Boundary != nil && f.d.CutPoints != nil && len(p) > 0 {
		done := 0
		for _, c := range f.d.CutPoints(len(p), entrySize(f.base)) {
			if c <= done || c >= len(p) {
				continue
			}
			n, err := f.inner.Write(p[done:c])
			done += n
			if err != nil {
				return done, err
			}
			f.d.boundary(fmt.Sprintf("%s:write.torn:%d/%d", f.base, c, len(p)))
		}
		n, err := f.inner.Write(p[done:])
		done += n
		if err != nil {
			return done, err
		}
		f.d.boundary(fmt.Sprintf("%s:write.done:%d", f.base, len(p)))
		return done, nil
	}
	n, err := f.inner.Write(p)
	if err == nil {
		f.d.boundary(fmt.Sprintf("%s:write.done:%d", f.base, len(p)))
	}
	return n, err
}

func (f *File) Truncate(size int64) error {
	if f.d.decide(KindTruncate, f.base, 0) != 0 {
		return ErrInjected
	}
	err := f.inner.Truncate(size)
	if err == nil {
		f.d.boundary(fmt.Sprintf("%s:truncate.done:%d", f.base, size))
	}
	return err
}

func (f *File) Sync() error {
	if f.d.decide(KindSync, f.base, 0) != 0 {
		return ErrInjected
	}
	return f.inner.Sync()
}

// DB wraps the real walletdb.DB.
type DB struct {
	walletdb.DB
	d *Disk
}

// WrapDB wraps db.
func (d *Disk) WrapDB(db walletdb.DB) walletdb.DB { return &DB{DB: db, d: d} }

// Update runs the transaction against the real database; on an injected commit
// fault the transaction's work is done and then rolled back, and the caller
// sees an error, exactly as if the commit had failed.
func (w *DB) Update(f func(tx walletdb.ReadWriteTx) error, reset func()) error {
	if w.d.decide(KindCommit, "db", 0) != 0 {
		err := w.DB.Update(func(tx walletdb.ReadWriteTx) error {
			if err := f(tx); err != nil {
				return err
			}
			return ErrInjected
		}, reset)
		if err == nil {
			err = ErrInjected
		}
		return err
	}
	err := w.DB.Update(f, reset)
	if err == nil {
		w.d.boundary("db:commit.done")
	}
	return err
}

// CopyDir copies the regular files of src into dst (created if needed).
func CopyDir(src, dst string) error {
	if err := os.MkdirAll(dst, 0755); err != nil {
		return err
	}
	ents, err := os.ReadDir(src)
	if err != nil {
		return err
	}
	for _, e := range ents {
		if !e.Type().IsRegular() {
			continue
		}
		in, err := os.Open(filepath.Join(src, e.Name()))
		if err != nil {
			return err
		}
		out, err := os.Create(filepath.Join(dst, e.Name()))
		if err != nil {
			in.Close()
			return err
		}
		_, err = io.Copy(out, in)
		in.Close()
		out.Close()
		if err != nil {
			return err
		}
	}
	return nil
}
