// Package c15 simulates the real pushtx.Broadcaster inside a testing/synctest
// bubble (fake clock, quiescence detection) against a simulator-owned
// Broadcast callback, block subscription and callers, all driven by the
// decision tape, and decides the rebroadcast part of property C15.
package c15

import (
	"fmt"
	"strings"
	"testing"
	"testing/synctest"
	"time"

	"verif/sim/core"
)

// bubble runs body inside a synctest bubble (same contract as e3.Bubble; kept
// local so that this engine binary does not depend on another engine
// compiling). Oracle failures unwind through core.Guard inside the bubble. If
// the bubble cannot be left because client goroutines stay durably blocked
// after clean-up, that is an infrastructure error unless the run already has a
// verdict (a caller blocked forever is exactly what one clause forbids; the
// verdict is then recorded before leaving).
func bubble(t *testing.T, rc *core.RunCtx, body func()) {
	defer func() {
		if r := recover(); r != nil {
			msg := fmt.Sprint(r)
			if strings.Contains(msg, "deadlock") || strings.Contains(msg, "blocked goroutines remain") {
				rc.Probe("bubble_left_with_blocked_goroutines")
				if rc.Res.Violation == nil && rc.Res.InfraError == "" {
					rc.Res.InfraError = "bubble could not be left cleanly: " + msg
				}
				return
			}
			if rc.Res.InfraError == "" {
				rc.Res.InfraError = "panic outside bubble body: " + msg
			}
		}
	}()
	synctest.Test(t, func(t *testing.T) {
		start := time.Now()
		core.Guard(rc, body)
		rc.Res.SimNs += int64(time.Since(start))
	})
}
