package c15

import (
	"errors"
	"fmt"
	"sort"
	"strings"
	"sync"
	"testing"
	"testing/synctest"
	"time"

	"github.com/btcsuite/btcd/chainhash/v2"
	"github.com/btcsuite/btcd/wire/v2"
	"github.com/lightninglabs/neutrino/blockntfns"
	"github.com/lightninglabs/neutrino/pushtx"

	"verif/sim/core"
)

func init() { core.Register("C15", RunC15) }

// RunC15 is the engine function for C15 (rebroadcast part).
func RunC15(t *testing.T, rc *core.RunCtx) {
	bubble(t, rc, func() { runC15(rc) })
}

// Outcomes of the simulator-owned Broadcast callback. 0 is the benign one.
const (
	oNil = iota
	oMempool
	oConfirmed
	oInvalid
	oInsufficientFee
	oUnknown
	oPlain           // an error that is not a *pushtx.BroadcastError
	oCustomMempool   // backend-specific error; means "in mempool" only through MapCustomBroadcastError
	oCustomConfirmed // backend-specific error; means "confirmed" only through MapCustomBroadcastError
)

var outcomeName = []string{"nil", "mempool", "confirmed", "invalid", "insufficient-fee", "unknown",
	"plain-error", "custom-mempool", "custom-confirmed"}

type customErr struct{ kind string }

func (e *customErr) Error() string { return "backend: " + e.kind }

// txInfo is one transaction of the run plus what the statement needs to know
// about its history.
type txInfo struct {
	idx     int
	tx      *wire.MsgTx
	hash    chainhash.Hash
	parents []int // distinct parent indexes

	submitted            bool // a Broadcast call was issued for it
	everAccepted         bool
	lastAccepted         bool // the most recent completed broadcast of it was accepted / in mempool
	everConfirmed        bool
	acceptedSinceConfirm bool
}

const (
	clsForbiddenNever = iota // never accepted (rejected or never broadcast): must not appear
	clsForbiddenConf         // reported confirmed and not accepted again since: must not appear
	clsRequired              // accepted, never reported confirmed, last broadcast accepted: must appear
	clsMaybe                 // history on which the statement is silent or ambiguous
)

func (x *txInfo) class() int {
	switch {
	case !x.everAccepted:
		return clsForbiddenNever
	case x.everConfirmed && !x.acceptedSinceConfirm:
		return clsForbiddenConf
	case x.lastAccepted && !x.everConfirmed:
		return clsRequired
	}
	return clsMaybe
}

func (x *txInfo) markConfirmed() {
	x.everConfirmed = true
	x.acceptedSinceConfirm = false
	x.lastAccepted = false
}

// initRec is one Broadcaster.Broadcast call's callback script.
type initRec struct {
	tx       int
	outcome  int
	park     bool
	release  chan struct{}
	released bool
	invoked  bool
	returned bool
}

type planEntry struct {
	outcome int
	park    bool
}

type rbPark struct {
	release  chan struct{}
	released bool
}

// batch is one rebroadcast as observed through the callback.
type batch struct {
	id      int
	plan    []planEntry
	trigger string
	snap    []int // class per tx at the moment the trigger was taken; nil until then
	hasConf bool  // the plan reports a possibly included transaction as confirmed
	calls   []int // tx index per callback invocation, in invocation order (-1 unknown)
	outs    []int // outcome returned per invocation
}

type op struct {
	kind         string // broadcast | confirm | stop
	tx           int
	rec          *initRec
	done         bool
	checked      bool
	err          error
	stopAtIssue  bool // Stop had been invoked when the call was issued
	stopAtReturn bool // Stop had been invoked when the call returned
}

type sim struct {
	rc *core.RunCtx
	tp *core.Tape
	mu sync.Mutex // guards everything below against callback / caller goroutines; never held while parked

	b        *pushtx.Broadcaster
	txs      []*txInfo
	byHash   map[chainhash.Hash]int
	mapper   bool
	interval time.Duration
	t0       time.Time
	ticks    int
	ntfns    chan blockntfns.BlockNtfn
	height   uint32

	initial   map[*wire.MsgTx]*initRec
	completed []*initRec
	hParked   *initRec
	rbParked  *rbPark
	cur       *batch
	armed     []planEntry
	nBatches  int

	pendingTrigger string
	triggerQueued  bool
	pending        int // stimuli issued while the handler was parked and not yet taken by it
	ops            []*op
	stopInvoked    bool
	stopReturned   bool
	draining       bool
	subCancelled   bool

	// per-run fault profile
	rbFaultNum, rbParkNum, initRejNum, initParkNum int

	batchesWithRequired int
	steps               int
}

func (s *sim) accepts(o int) bool {
	return o == oNil || o == oMempool || (s.mapper && o == oCustomMempool)
}

func (s *sim) reportsConfirmed(o int) bool {
	return o == oConfirmed || (s.mapper && o == oCustomConfirmed)
}

func (s *sim) errFor(o int) error {
	switch o {
	case oNil:
		return nil
	case oMempool:
		return &pushtx.BroadcastError{Code: pushtx.Mempool, Reason: "already have transaction"}
	case oConfirmed:
		return &pushtx.BroadcastError{Code: pushtx.Confirmed, Reason: "transaction already exists"}
	case oInvalid:
		return &pushtx.BroadcastError{Code: pushtx.Invalid, Reason: "already spent"}
	case oInsufficientFee:
		return &pushtx.BroadcastError{Code: pushtx.InsufficientFee, Reason: "fee too low"}
	case oUnknown:
		return &pushtx.BroadcastError{Code: pushtx.Unknown, Reason: "who knows"}
	case oPlain:
		return errors.New("no peers replied")
	case oCustomMempool:
		return &customErr{kind: "mempool"}
	case oCustomConfirmed:
		return &customErr{kind: "confirmed"}
	}
	return errors.New("?")
}

func mapCustom(err error) error {
	if ce, ok := err.(*customErr); ok {
		switch ce.kind {
		case "mempool":
			return &pushtx.BroadcastError{Code: pushtx.Mempool, Reason: ce.Error()}
		case "confirmed":
			return &pushtx.BroadcastError{Code: pushtx.Confirmed, Reason: ce.Error()}
		}
	}
	return err
}

// broadcastCB is Config.Broadcast. A call whose argument is the very pointer a
// caller handed to Broadcaster.Broadcast comes from the handler (first
// broadcast); every other call is a rebroadcast (the broadcaster hands copies
// to its rebroadcast goroutine). It never draws from the tape: scripts are
// drawn on the simulator goroutine, per transaction index, because the order
// in which independent transactions are rebroadcast is Go map order.
func (s *sim) broadcastCB(tx *wire.MsgTx) error {
	s.mu.Lock()
	if rec, ok := s.initial[tx]; ok {
		delete(s.initial, tx)
		rec.invoked = true
		if rec.park && !s.draining && !rec.released {
			s.hParked = rec
			s.mu.Unlock()
			<-rec.release
			s.mu.Lock()
			s.hParked = nil
		}
		rec.returned = true
		s.completed = append(s.completed, rec)
		err := s.errFor(rec.outcome)
		s.mu.Unlock()
		return err
	}

	idx := -1
	if i, ok := s.byHash[tx.TxHash()]; ok {
		idx = i
	}
	if s.rbParked != nil {
		// A rebroadcast call while another rebroadcast call has not
		// returned: two rebroadcasts are running at once.
		s.rc.Flag("rebroadcast-overlap", nil,
			"a rebroadcast of tx %d was issued while an earlier rebroadcast call was still outstanding", idx)
		s.mu.Unlock()
		return nil
	}
	if s.cur == nil {
		s.nBatches++
		s.cur = &batch{id: s.nBatches, plan: s.armed}
		s.armed = nil
	}
	b := s.cur
	b.calls = append(b.calls, idx)
	var pl planEntry
	if idx >= 0 && b.plan != nil {
		pl = b.plan[idx]
	}
	if s.draining {
		pl = planEntry{}
	}
	if pl.park {
		pk := &rbPark{release: make(chan struct{})}
		s.rbParked = pk
		s.mu.Unlock()
		<-pk.release
		s.mu.Lock()
		s.rbParked = nil
	}
	b.outs = append(b.outs, pl.outcome)
	err := s.errFor(pl.outcome)
	s.mu.Unlock()
	return err
}

func (s *sim) releaseHandler() {
	s.mu.Lock()
	rec := s.hParked
	if rec != nil && !rec.released {
		rec.released = true
		close(rec.release)
	}
	s.mu.Unlock()
}

func (s *sim) releaseRB() {
	s.mu.Lock()
	pk := s.rbParked
	if pk != nil && !pk.released {
		pk.released = true
		close(pk.release)
	}
	s.mu.Unlock()
}

func (s *sim) frozen() bool {
	return s.hParked != nil && s.cur != nil && s.cur.hasConf
}

// mayStimulate: the handler's select must never see two ready cases (its
// choice would be the runtime's, not the tape's), so while the handler is
// parked in the callback at most one further stimulus may queue up behind it,
// and none while a running rebroadcast may itself queue a confirmation.
func (s *sim) mayStimulate() bool {
	return s.hParked == nil || (s.pending == 0 && !s.frozen())
}

func (s *sim) noteStimulus(kind string) {
	if s.hParked != nil {
		s.pending++
		s.rc.Probe(kind + "_queued_behind_parked_handler")
		if kind == "trigger" {
			s.triggerQueued = true
		}
	}
}

func (s *sim) gated(i int) bool {
	return s.cur != nil && s.cur.plan != nil && s.reportsConfirmed(s.cur.plan[i].outcome)
}

func (s *sim) drawInitOutcome() int {
	if !s.tp.Chance(s.initRejNum, 8) {
		o := []int{oNil, oMempool, oCustomMempool}[s.tp.Intn(3)]
		if o == oCustomMempool && !s.mapper {
			o = oNil
		}
		return o
	}
	// (without the mapper the custom errors are just unknown errors)
	return []int{oInvalid, oConfirmed, oInsufficientFee, oUnknown, oPlain, oCustomConfirmed, oCustomMempool}[s.tp.Intn(7)]
}

func (s *sim) drawPlan() []planEntry {
	pl := make([]planEntry, len(s.txs))
	for i := range pl {
		if s.tp.Chance(s.rbFaultNum, 8) {
			pl[i].outcome = []int{oMempool, oConfirmed, oInvalid, oPlain, oCustomConfirmed,
				oCustomMempool, oUnknown, oInsufficientFee}[s.tp.Intn(8)]
		}
		pl[i].park = s.tp.Chance(s.rbParkNum, 8)
	}
	return pl
}

// ---- actions (simulator goroutine) ----

func (s *sim) doBroadcast(i int) {
	x := s.txs[i]
	rec := &initRec{tx: i, outcome: s.drawInitOutcome(), park: s.tp.Chance(s.initParkNum, 8),
		release: make(chan struct{})}
	ptr := x.tx.Copy()
	o := &op{kind: "broadcast", tx: i, rec: rec}
	s.mu.Lock()
	x.submitted = true
	o.stopAtIssue = s.stopInvoked
	s.initial[ptr] = rec
	s.ops = append(s.ops, o)
	if s.cur != nil {
		s.rc.Probe("broadcast_while_rebroadcast_running")
	}
	if s.stopReturned {
		s.rc.Probe("broadcast_after_stop")
	}
	s.noteStimulus("broadcast")
	s.mu.Unlock()
	s.rc.Logf("broadcast tx%d outcome=%s park=%v", i, outcomeName[rec.outcome], rec.park)
	go func() {
		err := s.b.Broadcast(ptr)
		s.mu.Lock()
		o.err, o.done, o.stopAtReturn = err, true, s.stopInvoked
		delete(s.initial, ptr)
		s.mu.Unlock()
	}()
}

func (s *sim) doConfirm(i int) {
	o := &op{kind: "confirm", tx: i}
	s.mu.Lock()
	o.stopAtIssue = s.stopInvoked
	s.ops = append(s.ops, o)
	if s.cur != nil {
		s.rc.Probe("confirm_while_rebroadcast_running")
	}
	if s.stopReturned {
		s.rc.Probe("mark_confirmed_after_stop")
	} else if s.stopInvoked {
		s.rc.Probe("mark_confirmed_while_stopping")
	}
	s.noteStimulus("confirm")
	s.mu.Unlock()
	s.rc.Logf("markAsConfirmed tx%d", i)
	h := s.txs[i].hash
	go func() {
		s.b.MarkAsConfirmed(h)
		s.mu.Lock()
		o.done, o.stopAtReturn = true, s.stopInvoked
		s.mu.Unlock()
	}()
}

func (s *sim) doStop() {
	o := &op{kind: "stop"}
	s.mu.Lock()
	second := s.stopInvoked
	if !second {
		if s.hParked != nil {
			s.rc.Probe("stop_with_handler_parked")
		}
		if s.rbParked != nil {
			s.rc.Probe("stop_with_rebroadcast_parked")
		}
		if s.cur != nil {
			s.rc.Probe("stop_while_rebroadcast_running")
		}
		for _, p := range s.ops {
			if !p.done && p.kind == "broadcast" {
				s.rc.Probe("stop_with_broadcast_in_flight")
			}
		}
	} else {
		s.rc.Probe("second_stop")
	}
	o.stopAtIssue = s.stopInvoked
	s.ops = append(s.ops, o)
	s.noteStimulus("stop")
	s.stopInvoked = true
	s.mu.Unlock()
	s.rc.Logf("stop (second=%v)", second)
	go func() {
		s.b.Stop()
		s.mu.Lock()
		o.done, o.stopAtReturn = true, true
		s.stopReturned = true
		s.mu.Unlock()
	}()
}

func (s *sim) doTrigger(kind string) {
	plan := s.drawPlan()
	s.mu.Lock()
	alive := !s.stopInvoked
	if alive {
		s.armed = plan
		s.pendingTrigger = kind
		s.noteStimulus("trigger")
	}
	s.mu.Unlock()
	s.rc.Logf("trigger %s", kind)
	switch kind {
	case "tick":
		s.ticks++
		target := s.t0.Add(time.Duration(s.ticks)*s.interval + s.interval/2)
		time.Sleep(time.Until(target))
	default:
		s.height++
		hdr := wire.BlockHeader{Nonce: s.height, Timestamp: time.Unix(int64(s.height), 0)}
		var n blockntfns.BlockNtfn = blockntfns.NewBlockConnected(hdr, s.height)
		if kind == "block-disconnected" {
			n = blockntfns.NewBlockDisconnected(hdr, s.height, hdr)
		}
		if alive || len(s.ntfns) < cap(s.ntfns) {
			select {
			case s.ntfns <- n:
			default:
				s.rc.Infra("notification channel full")
			}
		}
	}
}

// ---- after every quiescence (simulator goroutine; everything else is durably blocked) ----

func (s *sim) settle() {
	// 1. first-broadcast callbacks that returned: the handler adds the
	// transaction to its pending set right then, before it looks at any
	// other event.
	for _, rec := range s.completed {
		x := s.txs[rec.tx]
		if s.accepts(rec.outcome) {
			x.everAccepted, x.lastAccepted = true, true
			if x.everConfirmed {
				x.acceptedSinceConfirm = true
				s.rc.Probe("accepted_again_after_confirmation")
			}
		} else {
			if x.lastAccepted {
				s.rc.Probe("rejected_after_having_been_accepted")
			}
			x.lastAccepted = false
		}
	}
	s.completed = nil

	// 2. calls that returned.
	for _, o := range s.ops {
		if !o.done || o.checked {
			continue
		}
		o.checked = true
		switch o.kind {
		case "confirm":
			s.txs[o.tx].markConfirmed()
		case "broadcast":
			s.checkBroadcastResult(o)
		}
	}

	// 3. a trigger the handler has taken (it cannot have if it is parked).
	if s.pendingTrigger != "" && s.hParked == nil {
		kind := s.pendingTrigger
		s.pendingTrigger = ""
		defer func() { s.triggerQueued = false }()
		switch {
		case s.stopInvoked:
			s.armed = nil
		case s.cur != nil && s.cur.snap != nil:
			s.armed = nil
			s.rc.Probe("trigger_while_rebroadcast_running")
		default:
			if s.cur == nil {
				s.nBatches++
				s.cur = &batch{id: s.nBatches, plan: s.armed}
				s.armed = nil
			}
			b := s.cur
			b.trigger = kind
			if s.triggerQueued {
				s.rc.Probe("rebroadcast_started_by_trigger_queued_behind_parked_handler")
			}
			b.snap = make([]int, len(s.txs))
			for i, x := range s.txs {
				b.snap[i] = x.class()
				if b.snap[i] != clsForbiddenNever && b.snap[i] != clsForbiddenConf &&
					b.plan != nil && s.reportsConfirmed(b.plan[i].outcome) {
					b.hasConf = true
				}
			}
		}
	}

	// 4. end of the running rebroadcast: no rebroadcast call outstanding
	// and its goroutine cannot be waiting to hand a confirmation to a
	// parked handler.
	if s.cur != nil && s.rbParked == nil && !s.frozen() {
		s.evalBatch(s.cur)
		s.cur = nil
	}
	if s.frozen() {
		s.rc.Probe("rebroadcast_confirmation_vs_parked_handler")
	}

	// 5. nobody may be blocked without a reason the simulator holds.
	for _, o := range s.ops {
		if o.done {
			continue
		}
		must := false
		switch o.kind {
		case "broadcast":
			// (while the handler sits in the callback a caller may have
			// to wait for it, Stop or not; the callback is bounded)
			must = s.hParked == nil
		case "confirm":
			must = s.hParked == nil
		case "stop":
			must = s.hParked == nil && s.rbParked == nil
		}
		if must {
			s.confirmBlocked(o)
		}
	}
}

func (s *sim) checkBroadcastResult(o *op) {
	rec := o.rec
	stopped := o.stopAtReturn
	facts := map[string]string{"outcome": outcomeName[rec.outcome], "mapper": fmt.Sprint(s.mapper)}
	if errors.Is(o.err, pushtx.ErrBroadcasterStopped) {
		if !stopped {
			s.rc.Failf("broadcast-result", facts,
				"Broadcast(tx%d) returned ErrBroadcasterStopped although Stop had not been called", o.tx)
		}
		s.rc.Probe("broadcast_returned_stopped")
		return
	}
	if !rec.returned {
		s.rc.Failf("broadcast-result", facts,
			"Broadcast(tx%d) returned %v before the network broadcast had returned", o.tx, o.err)
	}
	want := s.accepts(rec.outcome)
	if want && o.err != nil {
		s.rc.Failf("broadcast-result", facts,
			"Broadcast(tx%d) failed with %q although the network broadcast reported %s", o.tx, o.err, outcomeName[rec.outcome])
	}
	if !want && o.err == nil {
		s.rc.Failf("broadcast-result", facts,
			"Broadcast(tx%d) returned nil although the network broadcast reported %s", o.tx, outcomeName[rec.outcome])
	}
	if rec.outcome != oNil && rec.outcome != oPlain {
		s.rc.Probe("first_broadcast_" + strings.ReplaceAll(outcomeName[rec.outcome], "-", "_"))
	}
}

func (s *sim) evalBatch(b *batch) {
	truncated := s.stopInvoked
	triggered := b.snap != nil
	cls := b.snap
	if cls == nil {
		// A rebroadcast no trigger of ours explains. The statement does
		// not forbid it; hold it only to "no forbidden tx" and order.
		s.rc.Probe("untriggered_rebroadcast")
		cls = make([]int, len(s.txs))
		for i, x := range s.txs {
			cls[i] = x.class()
		}
	}
	facts := map[string]string{"trigger": b.trigger, "stopping": fmt.Sprint(truncated)}
	pos := map[int]int{}
	for p, idx := range b.calls {
		if idx < 0 {
			s.rc.Failf("unknown-tx-rebroadcast", facts, "rebroadcast %d sent a transaction nobody ever broadcast", b.id)
		}
		if _, dup := pos[idx]; dup {
			s.rc.Failf("duplicate-in-rebroadcast", facts, "rebroadcast %d sent tx%d twice (calls %v)", b.id, idx, b.calls)
		}
		pos[idx] = p
		switch cls[idx] {
		case clsForbiddenNever:
			s.rc.Failf("rejected-rebroadcast", facts,
				"rebroadcast %d (%s) sent tx%d, whose broadcast was never accepted (calls %v)", b.id, b.trigger, idx, b.calls)
		case clsForbiddenConf:
			s.rc.Failf("confirmed-rebroadcast", facts,
				"rebroadcast %d (%s) started after tx%d had been reported confirmed, yet sent it (calls %v)", b.id, b.trigger, idx, b.calls)
		case clsMaybe:
			if !truncated {
				s.rc.Probe("ambiguous_history_tx_in_rebroadcast")
			}
		}
	}
	dep := false
	for _, idx := range b.calls {
		for _, par := range s.txs[idx].parents {
			pp, ok := pos[par]
			if !ok {
				continue
			}
			dep = true
			if pp > pos[idx] {
				s.rc.Failf("child-before-parent", facts,
					"rebroadcast %d sent tx%d before its parent tx%d (calls %v)", b.id, idx, par, b.calls)
			}
		}
	}
	nReq := 0
	if triggered {
		for i, c := range cls {
			switch c {
			case clsRequired:
				nReq++
				if _, ok := pos[i]; !ok && !truncated {
					s.rc.Failf("missing-in-rebroadcast", facts,
						"rebroadcast %d started by %s did not send tx%d, accepted and not reported confirmed (calls %v)",
						b.id, b.trigger, i, b.calls)
				}
			case clsForbiddenConf:
				s.rc.Probe("confirmed_tx_left_out")
			case clsForbiddenNever:
				if s.txs[i].submitted {
					s.rc.Probe("rejected_tx_left_out")
				}
			}
		}
	}
	if truncated {
		// How far it got before Stop cut it depends on map order; nothing
		// is demanded of rebroadcasts any more, so the model stops here.
		s.rc.Probe("rebroadcast_cut_by_stop")
		return
	}
	// What the rebroadcast learnt from peers.
	for p, idx := range b.calls {
		if p < len(b.outs) && s.reportsConfirmed(b.outs[p]) {
			s.txs[idx].markConfirmed()
			s.rc.Probe("peer_reported_confirmed_in_rebroadcast")
		}
	}
	s.rc.Probe("rebroadcast_checked")
	if nReq > 0 {
		s.batchesWithRequired++
	}
	if dep {
		s.rc.Probe("rebroadcast_with_dependency")
	}
	if len(b.calls) >= 4 {
		s.rc.Probe("rebroadcast_of_4_or_more")
	}
	if len(b.calls) == 0 {
		s.rc.Probe("rebroadcast_empty")
	}
	for _, idx := range b.calls {
		if len(s.txs[idx].parents) >= 2 {
			allIn := true
			for _, par := range s.txs[idx].parents {
				if _, ok := pos[par]; !ok {
					allIn = false
				}
			}
			if allIn {
				s.rc.Probe("rebroadcast_with_multi_parent_tx")
			}
		}
		for _, par := range s.txs[idx].parents {
			if _, ok := pos[par]; !ok {
				s.rc.Probe("child_rebroadcast_without_parent_pending")
				break
			}
		}
	}
	sorted := append([]int(nil), b.calls...)
	sort.Ints(sorted)
	s.rc.Logf("rebroadcast %d (%s) sent %v", b.id, b.trigger, sorted)
}

// confirmBlocked is reached when a call has not returned at quiescence
// although nothing the simulator holds can be in its way. Before calling that
// "blocked" it lets go of everything and lets a generous stretch of simulated
// time (with its ticks) pass.
func (s *sim) confirmBlocked(o *op) {
	facts := map[string]string{"stop_called": fmt.Sprint(s.stopInvoked), "stop_returned": fmt.Sprint(s.stopReturned)}
	s.mu.Lock()
	s.draining = true
	s.mu.Unlock()
	for i := 0; i < 50; i++ {
		s.releaseHandler()
		s.releaseRB()
		synctest.Wait()
		if s.hParked == nil && s.rbParked == nil {
			break
		}
	}
	time.Sleep(10*s.interval + time.Hour)
	synctest.Wait()
	if o.done {
		s.rc.Infra("%s call returned only after draining; the simulator's model of who waits for whom is wrong", o.kind)
	}
	switch o.kind {
	case "confirm":
		s.rc.Failf("mark-confirmed-blocked", facts,
			"MarkAsConfirmed(tx%d) has not returned after every callback was released and %v of simulated time (Stop called: %s, had returned when the call was found waiting: %s)",
			o.tx, 10*s.interval+time.Hour, facts["stop_called"], facts["stop_returned"])
	case "broadcast":
		s.rc.Failf("broadcast-blocked", facts,
			"Broadcast(tx%d) has not returned after every callback was released and %v of simulated time (Stop called: %v)",
			o.tx, 10*s.interval+time.Hour, s.stopInvoked)
	default:
		s.rc.Failf("stop-blocked", facts,
			"Stop has not returned after every callback was released and %v of simulated time", 10*s.interval+time.Hour)
	}
}

func (s *sim) state(act string) {
	req, forb := 0, 0
	for _, x := range s.txs {
		switch x.class() {
		case clsRequired:
			req++
		case clsForbiddenConf:
			forb++
		}
	}
	rp := tf(s.rbParked != nil)
	if s.frozen() {
		rp = "z" // which of the two it is depends on map order here
	}
	stop := 0
	if s.stopReturned {
		stop = 2
	} else if s.stopInvoked {
		stop = 1
	}
	s.rc.State(fmt.Sprintf("%s|%d|%d|%s|%s|%s|%d", act, req, forb,
		tf(s.cur != nil), tf(s.hParked != nil), rp, stop))
}

func tf(b bool) string {
	if b {
		return "1"
	}
	return "0"
}

func (s *sim) step(act string, f func()) {
	f()
	synctest.Wait()
	s.settle()
	if s.rc.Failed() {
		// flagged from a callback goroutine; end the run
		s.rc.Failf("", nil, "")
	}
	s.steps++
	s.rc.Res.Steps++
	s.state(act)
}

func buildTxs(tp *core.Tape, n int, edgeNum int) []*txInfo {
	txs := make([]*txInfo, n)
	for i := 0; i < n; i++ {
		x := &txInfo{idx: i}
		tx := wire.NewMsgTx(2)
		for j := 0; j < i; j++ {
			if !tp.Chance(edgeNum, 4) {
				continue
			}
			x.parents = append(x.parents, j)
			tx.AddTxIn(&wire.TxIn{PreviousOutPoint: wire.OutPoint{Hash: txs[j].hash, Index: 0}, Sequence: wire.MaxTxInSequenceNum})
			if tp.Chance(1, 4) {
				// Spend a second output of the same parent.
				tx.AddTxIn(&wire.TxIn{PreviousOutPoint: wire.OutPoint{Hash: txs[j].hash, Index: 1}, Sequence: wire.MaxTxInSequenceNum})
			}
		}
		if len(x.parents) == 0 || tp.Chance(1, 4) {
			// An input confirmed long ago (outside the set).
			var h chainhash.Hash
			h[0], h[1] = 0xEE, byte(i)
			tx.AddTxIn(&wire.TxIn{PreviousOutPoint: wire.OutPoint{Hash: h, Index: uint32(i)}, Sequence: wire.MaxTxInSequenceNum})
		}
		tx.AddTxOut(&wire.TxOut{Value: int64(1000 + i), PkScript: []byte{0x51, byte(i)}})
		tx.AddTxOut(&wire.TxOut{Value: int64(2000 + i), PkScript: []byte{0x52, byte(i)}})
		x.tx = tx
		x.hash = tx.TxHash()
		txs[i] = x
	}
	return txs
}

const (
	aBroadcast = iota
	aConfirm
	aBlock
	aTick
	aRelH
	aRelRB
	aStop
	aStop2
	nActs
)

var actName = []string{"bc", "conf", "block", "tick", "relH", "relRB", "stop", "stop2"}

func runC15(rc *core.RunCtx) {
	tp := rc.Tape
	s := &sim{rc: rc, tp: tp, byHash: map[chainhash.Hash]int{}, initial: map[*wire.MsgTx]*initRec{}}

	// Per-run profile (swarm): sizes, graph density, fault kinds.
	n := tp.Range(1, 7)
	edgeNum := tp.Intn(5) // edge probability edgeNum/4
	steps := tp.Range(6, 36)
	if rc.Tier == "thorough" {
		steps = tp.Range(6, 70)
	}
	warm := tp.Intn(n + 1) // this many leading steps prefer a first broadcast of a fresh transaction
	s.mapper = tp.Chance(1, 3)
	s.interval = []time.Duration{time.Minute, time.Second, 10 * time.Minute, 250 * time.Millisecond}[tp.Intn(4)]
	s.initRejNum = tp.Intn(4)  // /8
	s.initParkNum = tp.Intn(5) // /8
	s.rbFaultNum = tp.Intn(5)  // /8
	s.rbParkNum = tp.Intn(5)   // /8
	stopFrom := tp.Intn(steps + 1 + steps/2) // beyond steps: Stop only in the finale
	var w [nActs]int
	w[aBroadcast] = 3 + tp.Intn(4)
	w[aConfirm] = 1 + tp.Intn(2)*tp.Intn(2)
	w[aBlock] = 2 + tp.Intn(3)
	w[aTick] = 2 + tp.Intn(3)
	w[aRelH] = 1 + tp.Intn(4)
	w[aRelRB] = 1 + tp.Intn(4)
	w[aStop] = 1
	w[aStop2] = 1
	faulty := s.initRejNum+s.initParkNum+s.rbFaultNum+s.rbParkNum > 0

	s.txs = buildTxs(tp, n, edgeNum)
	edges := 0
	for _, x := range s.txs {
		s.byHash[x.hash] = x.idx
		edges += len(x.parents)
	}
	if len(s.byHash) != n {
		rc.Infra("transaction hashes collide")
	}

	s.ntfns = make(chan blockntfns.BlockNtfn, 8)
	cfg := &pushtx.Config{
		Broadcast: s.broadcastCB,
		SubscribeBlocks: func() (*blockntfns.Subscription, error) {
			return &blockntfns.Subscription{
				Notifications: s.ntfns,
				Cancel: func() {
					s.mu.Lock()
					s.subCancelled = true
					s.mu.Unlock()
				},
			}, nil
		},
		RebroadcastInterval: s.interval,
	}
	if s.mapper {
		cfg.MapCustomBroadcastError = mapCustom
		rc.Probe("custom_error_mapper_configured")
	}
	s.b = pushtx.NewBroadcaster(cfg)
	s.t0 = time.Now()
	if err := s.b.Start(); err != nil {
		rc.Infra("Start: %v", err)
	}
	synctest.Wait()

	defer func() {
		// Leave nothing of ours in anybody's way, whatever happened.
		s.mu.Lock()
		s.draining = true
		stopNeeded := !s.stopInvoked
		s.stopInvoked = true
		s.mu.Unlock()
		for i := 0; i < 50; i++ {
			s.releaseHandler()
			s.releaseRB()
			synctest.Wait()
			if s.hParked == nil && s.rbParked == nil {
				break
			}
		}
		if stopNeeded {
			go s.b.Stop()
		}
		synctest.Wait()
	}()

	postStop := 0
	for st := 0; st < steps; st++ {
		if s.stopReturned {
			postStop++
			if postStop > 4 {
				break
			}
		}
		var en [nActs]bool
		stim := s.mayStimulate()
		var cands []int
		for i := range s.txs {
			if !s.gated(i) {
				cands = append(cands, i)
			}
		}
		en[aBroadcast] = stim && len(cands) > 0
		en[aConfirm] = stim
		en[aBlock] = stim
		en[aTick] = stim
		en[aRelH] = s.hParked != nil
		en[aRelRB] = s.rbParked != nil && !s.frozen()
		en[aStop] = stim && !s.stopInvoked && st >= stopFrom
		en[aStop2] = s.stopReturned
		nFresh := 0
		for _, i := range cands {
			if !s.txs[i].submitted {
				nFresh++
			}
		}
		wt := w
		if nFresh == 0 {
			wt[aBroadcast] = 1 // only repeats are left
		}
		live := 0
		for _, x := range s.txs {
			if c := x.class(); c == clsRequired || c == clsMaybe {
				live++
			}
		}
		if live == 0 {
			wt[aBlock], wt[aTick], wt[aConfirm] = 1, 1, 1 // little to see
		}
		if st < warm && en[aBroadcast] && nFresh > 0 {
			for a := range en {
				en[a] = a == aBroadcast
			}
		}
		total := 0
		for a := 0; a < nActs; a++ {
			if en[a] {
				total += wt[a]
			}
		}
		if total == 0 {
			rc.Infra("no action enabled")
		}
		pick := tp.Intn(total)
		act := -1
		for a := 0; a < nActs; a++ {
			if !en[a] {
				continue
			}
			if pick < wt[a] {
				act = a
				break
			}
			pick -= wt[a]
		}
		switch act {
		case aBroadcast:
			var fresh []int
			for _, i := range cands {
				if !s.txs[i].submitted {
					fresh = append(fresh, i)
				}
			}
			from := cands
			if len(fresh) > 0 && !tp.Chance(1, 4) {
				from = fresh
			}
			i := from[tp.Intn(len(from))]
			s.step(actName[act], func() { s.doBroadcast(i) })
		case aConfirm:
			var req []int
			for i, x := range s.txs {
				if x.class() == clsRequired {
					req = append(req, i)
				}
			}
			i := 0
			if len(req) > 0 && !tp.Chance(1, 4) {
				i = req[tp.Intn(len(req))]
			} else {
				i = tp.Intn(n)
			}
			s.step(actName[act], func() { s.doConfirm(i) })
		case aBlock:
			kind := "block"
			if tp.Chance(1, 4) {
				kind = "block-disconnected"
			}
			s.step(actName[act], func() { s.doTrigger(kind) })
		case aTick:
			s.step(actName[act], func() { s.doTrigger("tick") })
		case aRelH:
			s.step(actName[act], func() {
				rc.Logf("release first-broadcast callback of tx%d", s.hParked.tx)
				s.releaseHandler()
			})
			s.pending = 0
		case aRelRB:
			s.step(actName[act], func() {
				rc.Logf("release rebroadcast callback")
				s.releaseRB()
			})
		case aStop, aStop2:
			s.step(actName[act], s.doStop)
		}
	}

	// Finale: let go of everything (handler first), stop, and optionally
	// call in after Stop has returned.
	for i := 0; s.hParked != nil || s.rbParked != nil; i++ {
		if i > 200 {
			rc.Infra("finale does not converge")
		}
		if s.hParked != nil {
			s.step("f-relH", s.releaseHandler)
			s.pending = 0
		} else {
			s.step("f-relRB", s.releaseRB)
		}
	}
	if !s.stopInvoked {
		if tp.Chance(1, 3) {
			// One last trigger with everything settled.
			s.step("f-block", func() { s.doTrigger("block") })
			for i := 0; s.rbParked != nil; i++ {
				if i > 200 {
					rc.Infra("finale does not converge")
				}
				s.step("f-relRB", s.releaseRB)
			}
		}
		s.step("f-stop", s.doStop)
	}
	if tp.Chance(1, 2) {
		i := tp.Intn(n)
		s.step("f-conf", func() { s.doConfirm(i) })
	}
	if tp.Chance(1, 2) {
		i := tp.Intn(n)
		s.step("f-bc", func() { s.doBroadcast(i) })
	}
	for _, o := range s.ops {
		if !o.done {
			s.confirmBlocked(o)
		}
	}
	if !s.subCancelled {
		rc.Probe("subscription_not_cancelled_at_stop")
	}

	rc.Res.Nontrivial = s.batchesWithRequired > 0
	rc.Res.Sample = map[string]any{"txs": n, "edges": edges, "steps": s.steps, "rebroadcasts": s.nBatches,
		"faulty": faulty, "mapper": s.mapper, "interval": s.interval.String()}
}
