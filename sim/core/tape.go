// Package core holds what every engine shares: the decision tape (the single
// source of every random choice in a run), the per-run context with oracle
// failure reporting, reach probes and behaviour fingerprints, a tape minimiser
// and the batch / replay entry point used by the engine test binaries.
package core

import (
	"math/rand/v2"
)

// Draw is one recorded decision.
type Draw struct {
	V uint32 `json:"v"`
	N uint32 `json:"n"`
}

// Tape is the decision tape. In generating mode every draw comes from one PRNG
// seeded from the run's seed and is recorded. In replay mode draws are read
// from the recorded list; past its end, and wherever an entry was zeroed by the
// minimiser, the value is 0, which every engine treats as the benign default
// (no fault, FIFO order, smallest size). Nothing else in a run may be random.
type Tape struct {
	rng    *rand.Rand
	replay []uint32
	replayMode bool
	pos    int
	Rec    []uint32
}

// NewTape returns a generating tape for seed.
func NewTape(seed int64) *Tape {
	return &Tape{rng: rand.New(rand.NewPCG(uint64(seed), 0x9e3779b97f4a7c15))}
}

// ReplayTape returns a tape that replays vals.
func ReplayTape(vals []uint32) *Tape {
	return &Tape{replay: vals, replayMode: true}
}

// Intn returns a value in [0,n). n<=1 returns 0 without consuming a draw.
func (t *Tape) Intn(n int) int {
	if n <= 1 {
		return 0
	}
	var v uint32
	if t.replayMode {
		if t.pos < len(t.replay) {
			v = t.replay[t.pos] % uint32(n)
		}
	} else {
		v = uint32(t.rng.IntN(n))
	}
	t.pos++
	t.Rec = append(t.Rec, v)
	return int(v)
}

// Range returns a value in [lo,hi].
func (t *Tape) Range(lo, hi int) int {
	if hi <= lo {
		return lo
	}
	return lo + t.Intn(hi-lo+1)
}

// Chance is true with probability num/den. A zeroed tape entry is false.
func (t *Tape) Chance(num, den int) bool {
	if num <= 0 {
		return false
	}
	// v in [0,den); true iff v >= den-num, so that 0 is always false.
	v := t.Intn(den)
	return v >= den-num
}

// Pos is the number of draws consumed so far.
func (t *Tape) Pos() int { return t.pos }
