package core

import (
	"encoding/json"
	"fmt"
	"os"
	"path/filepath"
	"runtime"
	"runtime/debug"
	"strconv"
	"strings"
	"testing"
	"time"
)

// EngineFunc executes one run. It must derive every choice from rc.Tape.
type EngineFunc func(t *testing.T, rc *RunCtx)

// ReplayFile is the on-disk replay format.
type ReplayFile struct {
	Prop        string     `json:"prop"`
	Tier        string     `json:"tier"`
	Seed        int64      `json:"seed"`
	Tape        []uint32   `json:"tape"`
	OrigTapeLen int        `json:"orig_tape_len"`
	Minimised   bool       `json:"minimised"`
	MinRuns     int        `json:"minimiser_runs"`
	Violation   *Violation `json:"violation"`
	Trace       []string   `json:"trace,omitempty"`
	// Regenerate: the tape is not recorded (the run never finished, e.g.
	// the client panicked); replay draws it afresh from the seed, which
	// yields the same tape.
	Regenerate bool `json:"regenerate,omitempty"`
	// Engine names the engine binary that produced the run (a property may
	// be decided by more than one).
	Engine string `json:"engine,omitempty"`
}

// Guard runs f and swallows the unwinding used by Failf/Infra. Any other
// panic is recorded as an infrastructure error with its stack.
func Guard(rc *RunCtx, f func()) {
	defer func() {
		if r := recover(); r != nil {
			if _, ok := r.(stopRun); ok {
				return
			}
			if rc.Res.InfraError == "" {
				rc.Res.InfraError = fmt.Sprintf("panic: %v\n%s", r, debug.Stack())
			}
		}
	}()
	f()
}

func scratchRoot() string {
	if d := os.Getenv("VERIF_SCRATCH"); d != "" {
		return d
	}
	if st, err := os.Stat("/dev/shm"); err == nil && st.IsDir() {
		return "/dev/shm"
	}
	return os.TempDir()
}

// StallLimit is the real time a single run may take before the watchdog
// declares that it cannot make progress (a run normally takes milliseconds).
var StallLimit = 90 * time.Second

// onStall is installed by Main: it emits the result of the stalled run and
// ends the process (a spinning goroutine cannot be stopped from outside).
var onStall func(rc *RunCtx, stacks string)

// RunOnce executes one run of eng on the given tape.
func RunOnce(t *testing.T, eng EngineFunc, prop, tier string, seed int64, tape *Tape, quiet bool) *RunCtx {
	dir, err := os.MkdirTemp(scratchRoot(), "vrun-"+prop+"-")
	if err != nil {
		t.Fatalf("scratch: %v", err)
	}
	defer os.RemoveAll(dir)
	rc := &RunCtx{Prop: prop, Tier: tier, Seed: seed, Tape: tape, Dir: dir, Quiet: quiet,
		Res: &RunResult{Prop: prop, Seed: seed}}
	start := time.Now()
	var wd *time.Timer
	if onStall != nil {
		wd = time.AfterFunc(StallLimit, func() {
			buf := make([]byte, 4<<20)
			n := runtime.Stack(buf, true)
			onStall(rc, string(buf[:n]))
		})
	}
	Guard(rc, func() { eng(t, rc) })
	if wd != nil {
		wd.Stop()
	}
	rc.Res.WallMs = time.Since(start).Milliseconds()
	rc.finish()
	return rc
}

// Main is the body of every engine's TestRun. Environment:
//
//	VERIF_PROP        property id (selects the engine function)
//	VERIF_MODE        batch (default) | replay
//	VERIF_TIER        quick | thorough
//	VERIF_SEED_START, VERIF_SEED_COUNT   seeds of this batch
//	VERIF_BUDGET_S    wall-clock cap for the batch (stops starting new runs)
//	VERIF_OUT         JSONL output, one RunResult per line
//	VERIF_REPLAY_DIR  where replay files for violations are written
//	VERIF_REPLAY      replay file (replay mode)
//	VERIF_MIN_S       minimiser budget in seconds (default 40)
func Main(t *testing.T, engines map[string]EngineFunc) {
	prop := os.Getenv("VERIF_PROP")
	eng, ok := engines[prop]
	if !ok {
		t.Skipf("no engine for VERIF_PROP=%q in this binary", prop)
		return
	}
	tier := os.Getenv("VERIF_TIER")
	if tier == "" {
		tier = "quick"
	}
	outPath := os.Getenv("VERIF_OUT")
	var out *os.File
	if outPath != "" {
		var err error
		out, err = os.OpenFile(outPath, os.O_CREATE|os.O_WRONLY|os.O_APPEND, 0644)
		if err != nil {
			t.Fatalf("open out: %v", err)
		}
		defer out.Close()
	}
	emit := func(r *RunResult) {
		b, _ := json.Marshal(r)
		if out != nil {
			out.Write(append(b, '\n'))
		} else {
			fmt.Println(string(b))
		}
	}

	if s, err := strconv.Atoi(os.Getenv("VERIF_STALL_S")); err == nil && s > 0 {
		StallLimit = time.Duration(s) * time.Second
	}
	replayDirStall := os.Getenv("VERIF_REPLAY_DIR")
	onStall = func(rc *RunCtx, stacks string) {
		// Keep only goroutines that are running or runnable: those are
		// the ones that keep the simulated system from becoming quiescent.
		var keep []string
		for _, g := range strings.Split(stacks, "\n\n") {
			if strings.Contains(g, "[running") || strings.Contains(g, "[runnable") ||
				strings.Contains(g, "[sync.Mutex.Lock") || strings.Contains(g, "[sync.RWMutex") || strings.Contains(g, "[semacquire") {
				if len(g) > 2500 {
					g = g[:2500]
				}
				keep = append(keep, g)
			}
		}
		if len(keep) > 6 {
			keep = keep[:6]
		}
		detail := fmt.Sprintf("no quiescence within %v of real time: goroutines that are running, runnable or waiting for a mutex (not a durable block in a bubble):\n%s", StallLimit, strings.Join(keep, "\n\n"))
		res := rc.Res
		if rc.StallClause != "" && res.Violation == nil {
			res.Violation = &Violation{Prop: rc.Prop, Clause: rc.StallClause, Facts: rc.StallFacts, Msg: detail}
			if replayDirStall != "" {
				rf := &ReplayFile{Prop: rc.Prop, Tier: rc.Tier, Seed: rc.Seed, Tape: rc.Tape.Rec,
					OrigTapeLen: len(rc.Tape.Rec), Violation: res.Violation, Trace: rc.Trace, Engine: os.Getenv("VERIF_ENGINE")}
				p := filepath.Join(replayDirStall, fmt.Sprintf("%s-seed%d-%s.json", rc.Prop, rc.Seed, sanitize(rc.StallClause)))
				b, _ := json.MarshalIndent(rf, "", " ")
				if os.WriteFile(p, b, 0644) == nil {
					res.Replay = p
				}
			}
		} else if res.Violation == nil {
			res.InfraError = detail
		}
		res.TapeLen = rc.Tape.Pos()
		emit(res)
		if out != nil {
			out.Sync()
		}
		os.Exit(3)
	}

	if os.Getenv("VERIF_MODE") == "replay" {
		path := os.Getenv("VERIF_REPLAY")
		raw, err := os.ReadFile(path)
		if err != nil {
			t.Fatalf("read replay: %v", err)
		}
		var rf ReplayFile
		if err := json.Unmarshal(raw, &rf); err != nil {
			t.Fatalf("parse replay: %v", err)
		}
		if rf.Tier != "" {
			tier = rf.Tier
		}
		tape := ReplayTape(rf.Tape)
		if rf.Regenerate {
			tape = NewTape(rf.Seed)
		}
		rc := RunOnce(t, eng, prop, tier, rf.Seed, tape, false)
		if os.Getenv("VERIF_PRINT_TRACE") != "" {
			for _, l := range rc.Trace {
				fmt.Println("TRACE", l)
			}
		}
		emit(rc.Res)
		return
	}

	start, _ := strconv.ParseInt(os.Getenv("VERIF_SEED_START"), 10, 64)
	count, _ := strconv.Atoi(os.Getenv("VERIF_SEED_COUNT"))
	if count == 0 {
		count = 1
	}
	budget, _ := strconv.Atoi(os.Getenv("VERIF_BUDGET_S"))
	minS, _ := strconv.Atoi(os.Getenv("VERIF_MIN_S"))
	if minS == 0 {
		minS = 40
	}
	replayDir := os.Getenv("VERIF_REPLAY_DIR")
	printTrace := os.Getenv("VERIF_PRINT_TRACE") != ""
	t0 := time.Now()
	minimised := map[string]bool{}
	nReplays := 0 // replay files written by this worker (capped)
	for i := 0; i < count; i++ {
		if budget > 0 && time.Since(t0) > time.Duration(budget)*time.Second {
			break
		}
		seed := start + int64(i)
		rc := RunOnce(t, eng, prop, tier, seed, NewTape(seed), false)
		if printTrace {
			for _, l := range rc.Trace {
				fmt.Println("TRACE", seed, l)
			}
		}
		if v := rc.Res.Violation; v != nil && replayDir != "" && nReplays < 12 {
			nReplays++
			sig := v.Sig()
			rf := &ReplayFile{Prop: prop, Tier: tier, Seed: seed, Tape: rc.Tape.Rec,
				OrigTapeLen: len(rc.Tape.Rec), Violation: v, Trace: rc.Trace, Engine: os.Getenv("VERIF_ENGINE")}
			if !minimised[sig] && len(minimised) < 6 && !isKnown(v) {
				minimised[sig] = true
				mt, runs, mrc := Minimize(t, eng, prop, tier, seed, rc.Tape.Rec, v,
					time.Duration(minS)*time.Second)
				if mrc != nil {
					rf.Tape, rf.Minimised, rf.MinRuns = mt, true, runs
					rf.Violation, rf.Trace = mrc.Res.Violation, mrc.Trace
				}
			}
			name := fmt.Sprintf("%s-seed%d-%s.json", prop, seed, sanitize(v.Clause))
			p := filepath.Join(replayDir, name)
			b, _ := json.MarshalIndent(rf, "", " ")
			if err := os.WriteFile(p, b, 0644); err == nil {
				rc.Res.Replay = p
				rc.Res.Minimised = rf.Minimised
				rc.Res.MinTapeLen = len(rf.Tape)
			}
		}
		emit(rc.Res)
	}
}

func sanitize(s string) string {
	return strings.Map(func(r rune) rune {
		if r >= 'a' && r <= 'z' || r >= 'A' && r <= 'Z' || r >= '0' && r <= '9' || r == '-' || r == '_' {
			return r
		}
		return '_'
	}, s)
}

// sameClass says whether got is the same violation class as want: same
// property and clause. Facts may legitimately simplify while shrinking.
func sameClass(want, got *Violation) bool {
	// Shrinking never crosses the line between a listed (known) finding
	// and an unlisted violation of the same clause.
	return got != nil && got.Prop == want.Prop && got.Clause == want.Clause && isKnown(got) == isKnown(want)
}

// Minimize shrinks a failing tape while the same violation class persists:
// truncate, delete chunks, zero entries (0 = benign choice), then reduce
// values. Bounded in wall time. Returns the smallest failing tape found, the
// number of candidate runs, and the run context of the final failing run.
func Minimize(t *testing.T, eng EngineFunc, prop, tier string, seed int64, tape []uint32,
	want *Violation, budget time.Duration) ([]uint32, int, *RunCtx) {

	deadline := time.Now().Add(budget)
	runs := 0
	var best *RunCtx
	cur := append([]uint32(nil), tape...)
	try := func(c []uint32) bool {
		if time.Now().After(deadline) {
			return false
		}
		runs++
		rc := RunOnce(t, eng, prop, tier, seed, ReplayTape(c), false)
		if rc.Res.InfraError == "" && sameClass(want, rc.Res.Violation) {
			// Only the consumed prefix matters.
			if rc.Tape.Pos() < len(c) {
				c = c[:rc.Tape.Pos()]
			}
			cur = append([]uint32(nil), c...)
			best = rc
			return true
		}
		return false
	}
	// Confirm it replays at all.
	if !try(cur) {
		return tape, runs, nil
	}
	// Drop trailing zeros is implicit (past-the-end reads are zero).
	trim := func() {
		for len(cur) > 0 && cur[len(cur)-1] == 0 {
			cur = cur[:len(cur)-1]
		}
	}
	changed := true
	for changed && time.Now().Before(deadline) {
		changed = false
		// Truncation.
		for n := len(cur) / 2; n >= 1 && time.Now().Before(deadline); n /= 2 {
			if len(cur) > n && try(append([]uint32(nil), cur[:len(cur)-n]...)) {
				changed = true
			}
		}
		// Chunk deletion.
		for sz := len(cur) / 2; sz >= 1 && time.Now().Before(deadline); sz /= 2 {
			for i := 0; i+sz <= len(cur) && time.Now().Before(deadline); {
				c := append(append([]uint32(nil), cur[:i]...), cur[i+sz:]...)
				if try(c) {
					changed = true
				} else {
					i += sz
				}
			}
		}
		// Zeroing.
		for sz := len(cur) / 2; sz >= 1 && time.Now().Before(deadline); sz /= 2 {
			for i := 0; i+sz <= len(cur) && time.Now().Before(deadline); i += sz {
				all0 := true
				for _, v := range cur[i : i+sz] {
					if v != 0 {
						all0 = false
					}
				}
				if all0 {
					continue
				}
				c := append([]uint32(nil), cur...)
				for j := i; j < i+sz; j++ {
					c[j] = 0
				}
				if try(c) {
					changed = true
				}
			}
		}
		// Value reduction.
		for i := 0; i < len(cur) && time.Now().Before(deadline); i++ {
			for i < len(cur) && cur[i] > 0 && time.Now().Before(deadline) {
				c := append([]uint32(nil), cur...)
				c[i] = cur[i] / 2
				if try(c) {
					changed = true
					continue
				}
				c = append([]uint32(nil), cur...)
				c[i] = cur[i] - 1
				if i < len(cur) && try(c) {
					changed = true
					continue
				}
				break
			}
		}
		trim()
	}
	trim()
	return cur, runs, best
}

// knownSigs holds the known findings the driver passes in VERIF_KNOWN (JSON
// list of {"clause":..., "facts":{...}}): violations matching one are recorded
// but not minimised (they are reported as KNOWN-FINDING, not as violations).
var knownSigs []struct {
	Clause string            `json:"clause"`
	Facts  map[string]string `json:"facts"`
}
var knownLoaded bool

func isKnown(v *Violation) bool {
	if !knownLoaded {
		knownLoaded = true
		json.Unmarshal([]byte(os.Getenv("VERIF_KNOWN")), &knownSigs)
	}
	for _, k := range knownSigs {
		if k.Clause != v.Clause {
			continue
		}
		ok := true
		for fk, fv := range k.Facts {
			if v.Facts[fk] != fv {
				ok = false
			}
		}
		if ok {
			return true
		}
	}
	return false
}

var registry = map[string]EngineFunc{}

// Register adds an engine function for a property (called from init
// functions of the per-property files so that adding a property to an engine
// binary touches no shared file).
func Register(prop string, f EngineFunc) { registry[prop] = f }

// MainRegistered runs Main over everything registered in this binary.
func MainRegistered(t *testing.T) { Main(t, registry) }
