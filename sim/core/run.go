package core

import (
	"crypto/sha256"
	"encoding/hex"
	"fmt"
	"sort"
	"strings"
)

// Violation is one oracle failure. Prop, Clause and Facts form its signature
// (seeds and tapes are deliberately not part of it); known_findings.json
// matches on those.
type Violation struct {
	Prop   string            `json:"prop"`
	Clause string            `json:"clause"`
	Facts  map[string]string `json:"facts,omitempty"`
	Msg    string            `json:"msg"`
}

// Sig is the canonical signature string.
func (v *Violation) Sig() string {
	keys := make([]string, 0, len(v.Facts))
	for k := range v.Facts {
		keys = append(keys, k)
	}
	sort.Strings(keys)
	var sb strings.Builder
	sb.WriteString(v.Prop + "/" + v.Clause)
	for _, k := range keys {
		sb.WriteString(" " + k + "=" + v.Facts[k])
	}
	return sb.String()
}

// RunResult is what one simulated run reports; one JSON line per run.
type RunResult struct {
	Prop        string         `json:"prop"`
	Seed        int64          `json:"seed"`
	Violation   *Violation     `json:"violation,omitempty"`
	InfraError  string         `json:"infra_error,omitempty"`
	Fingerprint string         `json:"fp"`
	Nontrivial  bool           `json:"nontrivial"`
	Steps       int            `json:"steps"`
	SimNs       int64          `json:"sim_ns"`
	Faults      map[string]int `json:"faults,omitempty"`
	Probes      map[string]int `json:"probes,omitempty"`
	States      []string       `json:"states,omitempty"`
	Sample      any            `json:"sample,omitempty"`
	TapeLen     int            `json:"tape_len"`
	Replay      string         `json:"replay,omitempty"`
	Minimised   bool           `json:"minimised,omitempty"`
	MinTapeLen  int            `json:"min_tape_len,omitempty"`
	Reproduced  int            `json:"reproduced,omitempty"`
	WallMs      int64          `json:"wall_ms"`
}

// RunCtx is handed to an engine for one run.
type RunCtx struct {
	Prop  string
	Tier  string
	Seed  int64
	Tape  *Tape
	Dir   string // scratch directory for this run (removed afterwards)
	Res   *RunResult
	Trace []string // event log (deterministic part), kept for replay files
	// Quiet suppresses trace collection during minimisation.
	Quiet bool
	// StallClause, when non-empty, says that the run is in a phase in which
	// "the simulated system never becomes quiescent" (a goroutine spins
	// without ever blocking, so simulated time cannot advance) is itself a
	// violation of the property, e.g. while waiting for Stop to return.
	// The real-time stall watchdog then reports a violation with this
	// clause instead of an infrastructure error.
	StallClause string
	StallFacts  map[string]string
	// TolerateLeftover: goroutines still blocked when the run's bubble is
	// left are counted (probe) but are not an infrastructure error. Set by
	// engines whose property says nothing about them (free-running race
	// detection).
	TolerateLeftover bool

	fp     []byte
	states map[string]struct{}
	// Budget: hard caps chosen by the engine.
}

type stopRun struct{}

// Failf records an oracle failure and ends the run.
func (rc *RunCtx) Failf(clause string, facts map[string]string, format string, a ...any) {
	if rc.Res.Violation == nil {
		rc.Res.Violation = &Violation{Prop: rc.Prop, Clause: clause, Facts: facts,
			Msg: fmt.Sprintf(format, a...)}
	}
	panic(stopRun{})
}

// Flag records an oracle failure without unwinding (for use off the main
// goroutine); the first one wins.
func (rc *RunCtx) Flag(clause string, facts map[string]string, format string, a ...any) {
	if rc.Res.Violation == nil {
		rc.Res.Violation = &Violation{Prop: rc.Prop, Clause: clause, Facts: facts,
			Msg: fmt.Sprintf(format, a...)}
	}
}

// Failed reports whether an oracle failure was recorded.
func (rc *RunCtx) Failed() bool { return rc.Res.Violation != nil }

// Infra records a harness problem (never a VIOLATION) and ends the run.
func (rc *RunCtx) Infra(format string, a ...any) {
	if rc.Res.InfraError == "" {
		rc.Res.InfraError = fmt.Sprintf(format, a...)
	}
	panic(stopRun{})
}

// Fault counts a fault that actually fired.
func (rc *RunCtx) Fault(kind string) {
	if rc.Res.Faults == nil {
		rc.Res.Faults = map[string]int{}
	}
	rc.Res.Faults[kind]++
}

// Probe counts a reach probe.
func (rc *RunCtx) Probe(name string) {
	if rc.Res.Probes == nil {
		rc.Res.Probes = map[string]int{}
	}
	rc.Res.Probes[name]++
}

// Logf appends to the deterministic event trace. It never draws from the tape
// and never reads a clock.
func (rc *RunCtx) Logf(format string, a ...any) {
	if rc.Quiet {
		return
	}
	rc.Trace = append(rc.Trace, fmt.Sprintf(format, a...))
}

// State feeds one abstract state into the behaviour fingerprint and into the
// distinct-state measure.
func (rc *RunCtx) State(s string) {
	h := sha256.Sum256(append(rc.fp, s...))
	rc.fp = h[:]
	if rc.states == nil {
		rc.states = map[string]struct{}{}
	}
	rc.states[s] = struct{}{}
}

func (rc *RunCtx) finish() {
	rc.Res.Fingerprint = hex.EncodeToString(rc.fp)
	if len(rc.Res.Fingerprint) > 16 {
		rc.Res.Fingerprint = rc.Res.Fingerprint[:16]
	}
	rc.Res.TapeLen = rc.Tape.Pos()
	if len(rc.states) <= 64 {
		for s := range rc.states {
			rc.Res.States = append(rc.Res.States, s)
		}
		sort.Strings(rc.Res.States)
	} else {
		// Too many to ship: hash them.
		for s := range rc.states {
			h := sha256.Sum256([]byte(s))
			rc.Res.States = append(rc.Res.States, hex.EncodeToString(h[:6]))
		}
		sort.Strings(rc.Res.States)
	}
}
