package e3

import (
	"testing"

	"verif/sim/core"
)

func TestRun(t *testing.T) {
	core.Main(t, map[string]core.EngineFunc{
		"C11": RunC11,
	})
}
