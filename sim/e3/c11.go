package e3

import (
	"fmt"
	"sync"
	"testing"
	"testing/synctest"
	"time"

	"github.com/btcsuite/btcd/wire/v2"
	"github.com/lightninglabs/neutrino/blockntfns"

	"verif/sim/core"
)

// ntfnSource is the simulator-owned NotificationSource. The manager's handler
// calls Notifications() at the top of every loop iteration, which lets the
// source observe, in the handler's own goroutine and therefore in exact order
// relative to backlog requests, that the previously offered event was taken.
type ntfnSource struct {
	mu      sync.Mutex
	cur     chan blockntfns.BlockNtfn
	loaded  blockntfns.BlockNtfn
	pending []blockntfns.BlockNtfn
	// hlog is the handler-ordered log: "take" and "backlog" entries.
	hlog  []hentry
	chain []wire.BlockHeader // connected headers by height (index 0 unused)
	taken int
}

type hentry struct {
	kind    string // "take" | "backlog"
	ev      blockntfns.BlockNtfn
	height  uint32
	backlog []blockntfns.BlockNtfn
	err     bool
}

func (s *ntfnSource) noteTaken() {
	if s.loaded != nil && len(s.cur) == 0 {
		s.hlog = append(s.hlog, hentry{kind: "take", ev: s.loaded})
		s.loaded = nil
		s.taken++
	}
}

func (s *ntfnSource) loadNext() {
	if s.loaded == nil && len(s.pending) > 0 && s.cur != nil {
		s.loaded = s.pending[0]
		s.pending = s.pending[1:]
		s.cur <- s.loaded
	}
}

func (s *ntfnSource) Notifications() <-chan blockntfns.BlockNtfn {
	s.mu.Lock()
	defer s.mu.Unlock()
	if s.cur == nil {
		s.cur = make(chan blockntfns.BlockNtfn, 1)
	}
	s.noteTaken()
	s.loadNext()
	return s.cur
}

func (s *ntfnSource) NotificationsSinceHeight(h uint32) ([]blockntfns.BlockNtfn, uint32, error) {
	s.mu.Lock()
	defer s.mu.Unlock()
	// The state the backlog describes is the chain as of the events the
	// handler has taken so far.
	best := uint32(0)
	var heights []wire.BlockHeader
	heights = append(heights, wire.BlockHeader{})
	for _, e := range s.hlog {
		if e.kind != "take" {
			continue
		}
		switch ev := e.ev.(type) {
		case *blockntfns.Connected:
			heights = append(heights, ev.Header())
		case *blockntfns.Disconnected:
			heights = heights[:len(heights)-1]
		}
	}
	best = uint32(len(heights) - 1)
	ent := hentry{kind: "backlog", height: h}
	if h > best {
		ent.err = true
		s.hlog = append(s.hlog, ent)
		return nil, 0, fmt.Errorf("height %d above best %d", h, best)
	}
	if h != 0 {
		for i := h + 1; i <= best; i++ {
			ent.backlog = append(ent.backlog, blockntfns.NewBlockConnected(heights[i], i))
		}
	}
	s.hlog = append(s.hlog, ent)
	return ent.backlog, best, nil
}

// push queues events for emission (called by the simulator at quiescence).
func (s *ntfnSource) push(evs ...blockntfns.BlockNtfn) {
	s.mu.Lock()
	defer s.mu.Unlock()
	s.pending = append(s.pending, evs...)
	s.noteTaken()
	s.loadNext()
}

type simSub struct {
	idx       int
	sub       *blockntfns.Subscription
	height    uint32
	hlogPos   int // index in hlog of this subscription's backlog entry
	behaviour int // 0 fast, 1 slow, 2 never reads
	got       []blockntfns.BlockNtfn
	closed    bool
	// cancel window in "taken" counts
	cancelled      bool
	cutLo, cutHi   int
	cancelReturned bool
}

func evID(n blockntfns.BlockNtfn) string {
	h := n.Header()
	k := "C"
	if _, ok := n.(*blockntfns.Disconnected); ok {
		k = "D"
	}
	return fmt.Sprintf("%s%d#%d", k, n.Height(), h.Nonce)
}

func init() { core.Register("C11", RunC11) }

// RunC11 is the engine function for C11.
func RunC11(t *testing.T, rc *core.RunCtx) {
	Bubble(t, rc, func() { runC11(rc) })
}

func runC11(rc *core.RunCtx) {
	tp := rc.Tape
	src := &ntfnSource{}
	mgr := blockntfns.NewSubscriptionManager(src)
	mgr.Start()
	stopped := false
	var subs []*simSub
	defer func() {
		if !stopped {
			mgr.Stop()
		}
		synctest.Wait()
	}()

	// The simulator's own view of the emitted chain (to build events).
	var chain []wire.BlockHeader
	chain = append(chain, wire.BlockHeader{})
	nonce := uint32(0)
	emitConnect := func() blockntfns.BlockNtfn {
		nonce++
		h := wire.BlockHeader{Nonce: nonce, Timestamp: time.Unix(int64(nonce), 0)}
		chain = append(chain, h)
		return blockntfns.NewBlockConnected(h, uint32(len(chain)-1))
	}
	emitDisconnect := func() blockntfns.BlockNtfn {
		h := chain[len(chain)-1]
		chain = chain[:len(chain)-1]
		return blockntfns.NewBlockDisconnected(h, uint32(len(chain)), chain[len(chain)-1])
	}

	steps := tp.Range(4, 30)
	if rc.Tier == "thorough" {
		steps = tp.Range(4, 80)
	}
	burstMax := 1 + tp.Intn(60) // sometimes far beyond the 20-slot buffers
	type pendingSub struct {
		s    *simSub
		done chan error
		res  *blockntfns.Subscription
	}
	var inflight *pendingSub

	read := func(s *simSub, max int) {
		for i := 0; i < max && !s.closed; i++ {
			select {
			case n, ok := <-s.sub.Notifications:
				if !ok {
					s.closed = true
					return
				}
				s.got = append(s.got, n)
			default:
				return
			}
		}
	}

	settleSub := func() {
		if inflight == nil {
			return
		}
		select {
		case err := <-inflight.done:
			s := inflight.s
			// Find this subscription's backlog entry: the last
			// backlog entry in the handler log.
			pos := -1
			for i := len(src.hlog) - 1; i >= 0; i-- {
				if src.hlog[i].kind == "backlog" {
					pos = i
					break
				}
			}
			if err != nil {
				if stopped || (pos >= 0 && src.hlog[pos].err) {
					rc.Probe("subscribe_refused")
				} else {
					rc.Failf("subscribe-failed", nil, "NewSubscription(%d) failed: %v", s.height, err)
				}
			} else {
				s.sub = inflight.res
				s.hlogPos = pos
				if stopped {
					// Registered while Stop was under way: it
					// is shut down with the others.
					s.cancelled = true
					s.cutHi = src.taken
					if s.cutHi == 0 {
						s.cutHi = -1
					}
				}
				subs = append(subs, s)
			}
			inflight = nil
		default:
			if !stopped {
				rc.Failf("subscribe-blocked", nil, "NewSubscription did not return although the manager is idle")
			}
		}
	}

	for step := 0; step < steps && !stopped; step++ {
		nAct := 1 + tp.Intn(3)
		for a := 0; a < nAct; a++ {
			switch w := tp.Intn(100); {
			case w < 40: // emit a burst
				n := 1 + tp.Intn(burstMax)
				var evs []blockntfns.BlockNtfn
				for i := 0; i < n; i++ {
					if len(chain) > 1 && tp.Chance(1, 5) {
						evs = append(evs, emitDisconnect())
					} else {
						evs = append(evs, emitConnect())
					}
				}
				rc.Logf("step %d: emit %d events (%s ..)", step, n, evID(evs[0]))
				src.push(evs...)
			case w < 60: // subscribe
				if inflight != nil {
					continue
				}
				h := uint32(0)
				if tp.Chance(2, 3) {
					h = uint32(tp.Intn(len(chain) + 2)) // may be above best: refused
				}
				s := &simSub{idx: len(subs), height: h, behaviour: tp.Intn(3)}
				ps := &pendingSub{s: s, done: make(chan error, 1)}
				inflight = ps
				rc.Logf("step %d: subscribe(height=%d, behaviour=%d)", step, h, s.behaviour)
				go func() {
					sub, err := mgr.NewSubscription(h)
					ps.res = sub
					ps.done <- err
				}()
			case w < 72: // cancel
				var live []*simSub
				for _, s := range subs {
					if !s.cancelled {
						live = append(live, s)
					}
				}
				if len(live) == 0 {
					continue
				}
				s := live[tp.Intn(len(live))]
				s.cancelled = true
				src.mu.Lock()
				s.cutLo = src.taken
				src.mu.Unlock()
				rc.Logf("step %d: cancel sub %d", step, s.idx)
				go func() {
					s.sub.Cancel()
					s.cancelReturned = true
				}()
			case w < 76: // stop the manager
				if step < steps/2 {
					continue
				}
				rc.Logf("step %d: stop manager", step)
				stopped = true
				src.mu.Lock()
				lo := src.taken
				src.mu.Unlock()
				for _, s := range subs {
					if !s.cancelled {
						s.cancelled = true
						s.cutLo = lo
					}
				}
				done := make(chan struct{})
				go func() { mgr.Stop(); close(done) }()
				synctest.Wait()
				select {
				case <-done:
				default:
					// Give its tickers (none expected) some fake time.
					time.Sleep(time.Minute)
					synctest.Wait()
					select {
					case <-done:
					default:
						rc.Failf("stop-blocked", nil, "SubscriptionManager.Stop did not return within a simulated minute")
					}
				}
			default: // readers
				for _, s := range subs {
					switch s.behaviour {
					case 0:
						read(s, 1<<30)
					case 1:
						read(s, tp.Intn(4))
					}
				}
			}
		}
		synctest.Wait()
		src.mu.Lock()
		src.noteTaken()
		taken := src.taken
		src.mu.Unlock()
		settleSub()
		for _, s := range subs {
			if s.cancelled && s.cutHi == 0 && (s.cancelReturned || stopped) {
				s.cutHi = taken
				if s.cutHi == 0 {
					s.cutHi = -1 // "no events taken" marker
				}
			}
		}
		rc.Res.Steps++
		rc.State(fmt.Sprintf("subs=%d|taken=%s|stopped=%v", len(subs), bkt(taken), stopped))
	}

	// Final phase: everything emitted is taken (unless stopped), every
	// subscriber (even the never-reading ones) now drains completely.
	for i := 0; i < 200; i++ {
		synctest.Wait()
		progress := false
		for _, s := range subs {
			before := len(s.got)
			read(s, 1<<30)
			if len(s.got) != before {
				progress = true
			}
		}
		src.mu.Lock()
		src.noteTaken()
		idle := len(src.pending) == 0 && src.loaded == nil
		src.mu.Unlock()
		if !progress && (idle || stopped) {
			break
		}
	}
	settleSub()

	// Oracle.
	src.mu.Lock()
	hlog := src.hlog
	src.mu.Unlock()
	for _, s := range subs {
		// Expected full stream: backlog ++ every event taken after the
		// backlog request.
		var exp []blockntfns.BlockNtfn
		exp = append(exp, hlog[s.hlogPos].backlog...)
		nBacklog := len(exp)
		takenBefore := 0
		for i := 0; i < s.hlogPos; i++ {
			if hlog[i].kind == "take" {
				takenBefore++
			}
		}
		for i := s.hlogPos + 1; i < len(hlog); i++ {
			if hlog[i].kind == "take" {
				exp = append(exp, hlog[i].ev)
			}
		}
		facts := map[string]string{"reader": []string{"fast", "slow", "never"}[s.behaviour],
			"cancelled": fmt.Sprint(s.cancelled), "backlog": fmt.Sprint(nBacklog > 0)}
		// Order / no loss / no duplicate: got must be a prefix of exp.
		for i, g := range s.got {
			if i >= len(exp) {
				rc.Failf("extra-event", facts, "sub %d (height %d) received %d events, only %d were due; extra %s",
					s.idx, s.height, len(s.got), len(exp), evID(g))
			}
			if evID(g) != evID(exp[i]) || g.ChainTip() != exp[i].ChainTip() {
				rc.Failf("wrong-order-or-lost", facts, "sub %d (height %d): event %d is %s, expected %s (backlog %d)",
					s.idx, s.height, i, evID(g), evID(exp[i]), nBacklog)
			}
		}
		if !s.cancelled {
			if len(s.got) != len(exp) {
				rc.Failf("event-lost", facts, "sub %d (height %d, %s reader) received %d of %d events after everything settled",
					s.idx, s.height, facts["reader"], len(s.got), len(exp))
			}
			if s.closed {
				rc.Failf("closed-without-cancel", facts, "sub %d channel closed although neither cancelled nor stopped", s.idx)
			}
			continue
		}
		// Cancelled or stopped: the channel must be closed, and nothing
		// taken after the cancel returned may have been delivered.
		if !s.closed {
			rc.Failf("not-closed-after-cancel", facts, "sub %d: channel not closed after cancel/stop and full drain", s.idx)
		}
		hi := s.cutHi
		if hi < 0 {
			hi = 0
		}
		maxDue := nBacklog + (hi - takenBefore)
		if hi-takenBefore < 0 {
			maxDue = nBacklog
		}
		if len(s.got) > maxDue {
			rc.Failf("sent-after-cancel", facts, "sub %d received %d events but at most %d were emitted before its cancel/stop completed",
				s.idx, len(s.got), maxDue)
		}
		rc.Probe("cancelled_sub_checked")
	}
	// Shutdown: after Stop every subscription channel is closed.
	if !stopped {
		stopped = true
		done := make(chan struct{})
		go func() { mgr.Stop(); close(done) }()
		synctest.Wait()
		select {
		case <-done:
		default:
			time.Sleep(time.Minute)
			synctest.Wait()
			select {
			case <-done:
			default:
				rc.Failf("stop-blocked", nil, "SubscriptionManager.Stop did not return within a simulated minute")
			}
		}
	}
	for _, s := range subs {
		for i := 0; i < 100 && !s.closed; i++ {
			read(s, 1<<30)
			synctest.Wait()
		}
		if !s.closed {
			rc.Failf("not-closed-after-stop", map[string]string{"reader": []string{"fast", "slow", "never"}[s.behaviour]},
				"sub %d: channel still open after the manager was stopped", s.idx)
		}
	}
	nNever, nBig := 0, 0
	for _, s := range subs {
		if s.behaviour == 2 {
			nNever++
		}
		if len(s.got) > 40 {
			nBig++
		}
	}
	if nBig > 0 {
		rc.Probe("stream_longer_than_buffers")
	}
	if nNever > 0 && len(subs) > 1 {
		rc.Probe("never_reader_with_others")
	}
	rc.Res.Nontrivial = len(subs) >= 1 && src.taken >= 1
	rc.Res.Sample = map[string]any{"subs": len(subs), "events_taken": src.taken, "steps": rc.Res.Steps, "stopped": stopped}
}

func bkt(n int) string {
	switch {
	case n == 0:
		return "0"
	case n <= 5:
		return "1-5"
	case n <= 20:
		return "6-20"
	case n <= 45:
		return "21-45"
	}
	return "46+"
}
