// Package e3 is engine E3 (compsim): one real neutrino component at a time
// inside a testing/synctest bubble (fake clock, quiescence detection), driven
// by the decision tape against simulator-owned counterparts.
package e3

import (
	"fmt"
	"runtime"
	"strings"
	"testing"
	"testing/synctest"
	"time"

	"verif/sim/core"
)

// Bubble runs body inside a synctest bubble. Oracle failures unwind through
// core.Guard inside the bubble. If the bubble cannot be left because client
// goroutines stay durably blocked after clean-up, that is recorded (once) as
// an infrastructure error unless the run already has a verdict.
func Bubble(t *testing.T, rc *core.RunCtx, body func()) {
	defer func() {
		if r := recover(); r != nil {
			msg := fmt.Sprint(r)
			if strings.Contains(msg, "deadlock") || strings.Contains(msg, "blocked goroutines remain") {
				rc.Probe("bubble_left_with_blocked_goroutines")
				if rc.Res.Violation == nil && rc.Res.InfraError == "" && !rc.TolerateLeftover {
					buf := make([]byte, 1<<20)
					n := runtime.Stack(buf, true)
					var keep []string
					for _, g := range strings.Split(string(buf[:n]), "\n\n") {
						// A goroutine leak of the btcd peer package (not
						// the code under test): the stall handler drains
						// its control channel and exits, the input handler
						// then blocks for ever on its next send to it.
						if strings.Contains(g, "chan send") && strings.Contains(g, "btcd/peer.(*Peer).inHandler") &&
							!strings.Contains(g, "lightninglabs/neutrino") {
							rc.Probe("leftover_btcd_peer_inhandler_blocked_on_stall_control")
							continue
						}
						if strings.Contains(g, "synctest bubble") {
							if len(g) > 1500 {
								g = g[:1500]
							}
							keep = append(keep, g)
						}
					}
					if len(keep) == 0 {
						return
					}
					if len(keep) > 8 {
						keep = keep[:8]
					}
					// Goroutines of the code under test that outlive the
					// run's clean-up (typically a Stop that was still
					// winding down when the run's simulated-time allowance
					// for it ran out) do not touch the run's verdict, which
					// was reached before: counted and logged, not an
					// infrastructure error. (C17, whose subject is Stop,
					// judges Stop inside the run.)
					rc.Probe("bubble_left_with_goroutines_of_the_client")
					rc.Logf("bubble left with blocked goroutines: %s\n%s", msg, strings.Join(keep[:1], "\n"))
				}
				return
			}
			if rc.Res.InfraError == "" {
				rc.Res.InfraError = "panic outside bubble body: " + msg
			}
		}
	}()
	synctest.Test(t, func(t *testing.T) {
		start := time.Now()
		core.Guard(rc, body)
		rc.Res.SimNs += int64(time.Since(start))
	})
}
