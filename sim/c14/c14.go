// Package c14 checks property C14: a header import leaves both header stores
// equal to their earlier contents extended by the import file's headers, or -
// when it reports failure - usable, mutually consistent and free of anything
// that was not validated.
//
// One run = one generated pair of import files (block headers, filter
// headers) imported by the REAL chainimport code into the REAL headerfs
// stores over real bbolt, with every dimension of the case (store heights,
// height difference between the stores, file start height and length, write
// batch size, anomaly in the file, injected store write fault) drawn from the
// decision tape. The oracle is a reference model built from the raw bytes of
// the files and the stores' contents read back before the import.
package c14

import (
	"bytes"
	"context"
	"encoding/binary"
	"fmt"
	"os"
	"path/filepath"
	"strings"
	"testing"
	"time"

	"github.com/btcsuite/btcd/chaincfg/v2"
	"github.com/btcsuite/btcd/chainhash/v2"
	"github.com/btcsuite/btcd/wire/v2"
	"github.com/lightninglabs/neutrino/chainimport"
	"github.com/lightninglabs/neutrino/headerfs"

	"verif/sim/chainmodel"
	"verif/sim/core"
	"verif/sim/e2"
	"verif/sim/fault"
)

func init() { core.Register("C14", RunC14) }

// Anomalies a generated case may carry (at most one per run; 0 = none).
const (
	anNone = iota
	anWrongMagic
	anFork
	anFilterMismatch
	anInvalidHeader
	anCorrupt
	anTruncate
	anFilesDisagree
	anFilterAhead
)

var anomalyNames = [...]string{"none", "wrong-network", "fork", "filter-mismatch", "invalid-header",
	"corrupt-bytes", "truncated", "files-disagree", "filter-store-ahead"}

// anomalyTable weights the anomalies when one is drawn.
var anomalyTable = [...]int{anWrongMagic, anWrongMagic, anFork, anFork, anFork, anFilterMismatch,
	anFilterMismatch, anInvalidHeader, anInvalidHeader, anInvalidHeader, anInvalidHeader, anCorrupt,
	anCorrupt, anTruncate, anFilesDisagree, anFilterAhead}

const metaSize = 10

// fileModel is the reference reading of one import file, made from its raw
// bytes only: the 10-byte metadata and then as many whole entries as fit.
type fileModel struct {
	raw     []byte
	entry   int
	hasMeta bool
	magic   uint32
	version byte
	typ     byte
	start   int
	count   int // whole entries present
	// wellFormed: metadata present, version 0, the expected type, at least
	// one entry and no trailing partial entry.
	wellFormed bool
}

func parseFile(raw []byte, entry int, wantType byte) *fileModel {
	m := &fileModel{raw: raw, entry: entry}
	if len(raw) < metaSize {
		return m
	}
	m.hasMeta = true
	m.magic = binary.LittleEndian.Uint32(raw[0:4])
	m.version = raw[4]
	m.typ = raw[5]
	m.start = int(binary.LittleEndian.Uint32(raw[6:10]))
	m.count = (len(raw) - metaSize) / entry
	m.wellFormed = m.version == 0 && m.typ == wantType && m.count > 0 && (len(raw)-metaSize)%entry == 0
	return m
}

func (m *fileModel) end() int { return m.start + m.count - 1 }

// bytesAt returns the raw entry the file holds for height h.
func (m *fileModel) bytesAt(h int) ([]byte, bool) {
	if !m.hasMeta || h < m.start || h > m.end() {
		return nil, false
	}
	off := metaSize + (h-m.start)*m.entry
	return m.raw[off : off+m.entry], true
}

// blockHashAt is the hash of the block header the file holds for height h.
func (m *fileModel) blockHashAt(h int) (chainhash.Hash, bool) {
	b, ok := m.bytesAt(h)
	if !ok {
		return chainhash.Hash{}, false
	}
	return chainhash.DoubleHashH(b), true
}

// filterAt is the filter header the file holds for height h.
func (m *fileModel) filterAt(h int) (chainhash.Hash, bool) {
	b, ok := m.bytesAt(h)
	if !ok {
		return chainhash.Hash{}, false
	}
	var fh chainhash.Hash
	copy(fh[:], b)
	return fh, true
}

func metaBytes(magic uint32, version, typ byte, start uint32) []byte {
	b := make([]byte, metaSize)
	binary.LittleEndian.PutUint32(b[0:4], magic)
	b[4] = version
	b[5] = typ
	binary.LittleEndian.PutUint32(b[6:10], start)
	return b
}

func hdrBytes(h *wire.BlockHeader) []byte {
	var b bytes.Buffer
	h.Serialize(&b)
	return b.Bytes()
}

// run carries one run's state.
type run struct {
	rc   *core.RunCtx
	tp   *core.Tape
	p    *chaincfg.Params
	tree *chainmodel.Tree
	dir  string
	disk *fault.Disk
	st   *e2.Stores

	stride, off int
	salt        uint32

	B, F, s, n, e, bs int
	anomaly           int
	anomalyDetail     string

	blockPath, filterPath string
	bf, ff                *fileModel

	// fault plan
	faulty    bool
	faultAt   int
	// cancellation plan: the first import's context is cancelled before the
	// call (cancelAt 0) or just before its cancelAt-th store write step.
	cancelPlan bool
	cancelAt   int
	cancelArm  bool
	ctxCancel  context.CancelFunc
	short     bool
	shortK    int
	armed     bool
	opp       int
	firedKind string
}

func (r *run) mineOne(parent *chainmodel.Block, brk string) *chainmodel.Block {
	r.salt++
	mins := 1 + (int(parent.Height+1)*r.stride+r.off)%25
	if chainmodel.Work(parent.Hdr.Bits).BitLen() > 12 {
		// A run of fast blocks has driven the difficulty up; slow down
		// so that mining stays cheap (still a valid chain).
		mins = 41
	}
	return r.tree.Extend(parent, chainmodel.MineOpts{
		Time:  parent.Hdr.Timestamp.Add(time.Duration(mins) * time.Minute),
		Salt:  r.salt,
		Break: brk,
	})
}

func (r *run) mineTo(parent *chainmodel.Block, height int) *chainmodel.Block {
	for int(parent.Height) < height {
		parent = r.mineOne(parent, "")
	}
	return parent
}

func (r *run) facts(outcome string) map[string]string {
	start := "zero"
	if r.s > 0 {
		start = "nonzero"
	}
	f := "none"
	if r.firedKind != "" {
		f = r.firedKind
	}
	return map[string]string{"outcome": outcome, "start": start, "anomaly": anomalyNames[r.anomaly], "fault": f}
}

// populate writes chain[1..B] and the filter headers [1..F] into the stores
// the way a syncing client does (batches; every filter batch names its last
// block).
func (r *run) populate(chain []*chainmodel.Block, B, F, chunk int) {
	for from := 1; from <= B; from += chunk {
		to := min(from+chunk-1, B)
		hdrs := make([]headerfs.BlockHeader, 0, chunk)
		for h := from; h <= to; h++ {
			hd := chain[h].Hdr
			hdrs = append(hdrs, headerfs.BlockHeader{BlockHeader: &hd, Height: uint32(h)})
		}
		if err := r.st.Block.WriteHeaders(hdrs...); err != nil {
			r.rc.Infra("populate block store: %v", err)
		}
	}
	for from := 1; from <= F; from += chunk {
		to := min(from+chunk-1, F)
		hdrs := make([]headerfs.FilterHeader, 0, chunk)
		for h := from; h <= to; h++ {
			hdrs = append(hdrs, headerfs.FilterHeader{HeaderHash: chain[h].Hash,
				FilterHash: r.tree.FilterHeader(chain[h]), Height: uint32(h)})
		}
		if err := r.st.Filter.WriteHeaders(hdrs...); err != nil {
			r.rc.Infra("populate filter store: %v", err)
		}
	}
}

// doImport runs one real import and returns its error (nil = success). A
// panic inside the import is an oracle failure: the call must report success
// or failure.
func (r *run) doImport(stage string) (err error) {
	opts := &chainimport.ImportOptions{
		TargetChainParams:       *r.p,
		TargetBlockHeaderStore:  r.st.Block,
		TargetFilterHeaderStore: r.st.Filter,
		BlockHeadersSource:      r.blockPath,
		FilterHeadersSource:     r.filterPath,
		WriteBatchSizePerRegion: r.bs,
	}
	imp, nerr := chainimport.NewHeadersImport(opts)
	if nerr != nil {
		r.rc.Infra("NewHeadersImport: %v", nerr)
	}
	ctx, cancel := context.WithCancel(context.Background())
	defer cancel()
	if r.cancelArm {
		r.ctxCancel = cancel
		if r.cancelAt == 0 {
			r.firedKind = "cancel.before"
			cancel()
		}
	}
	var panicked any
	func() {
		defer func() { panicked = recover() }()
		_, err = imp.Import(ctx)
	}()
	r.ctxCancel = nil
	if panicked != nil {
		r.rc.Failf("import-panicked", r.facts("panic"), "%s import panicked: %v", stage, panicked)
	}
	return err
}

func errClass(err error) string {
	if err == nil {
		return "ok"
	}
	s := err.Error()
	for _, c := range []struct{ sub, name string }{
		{"context canceled", "cancelled"},
		{"failed to rollback", "write-failed-rollback-failed"},
		{"failed to write filter headers", "filter-write-failed"},
		{"failed to write block headers", "block-write-failed"},
		{"network mismatch", "wrong-network"},
		{"network type mismatch", "network-files-differ"},
		{"creating a gap", "gap"},
		{"header mismatch at height", "overlap-mismatch"},
		{"failed to validate header connection", "not-connected"},
		{"failed to validate block headers", "invalid-block-header"},
		{"failed to validate filter headers", "invalid-filter-header"},
		{"not a multiple of", "partial-entry"},
		{"no headers available", "empty-file"},
		{"headers count mismatch", "count-differs"},
		{"start height mismatch", "start-differs"},
		{"unsupported header format version", "bad-version"},
		{"header type", "bad-type"},
		{"failed to get header size", "bad-type"},
		{"failed to get target filter header chain tip", "filter-tip-unreadable"},
		{"failed to get target block header chain tip", "block-tip-unreadable"},
		{"failed to read block headers batch", "batch-read-failed"},
		{"failed to read filter headers batch", "batch-read-failed"},
		{"mismatch between target block header chain tip height", "tip-height-differs"},
		{"failed to open sources", "open-failed"},
	} {
		if strings.Contains(s, c.sub) {
			return c.name
		}
	}
	return "other"
}

// judge applies the property to the stores after one import. before is what
// the stores held, ok whether the import reported success. It returns the
// contents read back.
func (r *run) judge(stage string, ok, final bool, before *e2.Contents) *e2.Contents {
	outcome := "failure"
	if ok {
		outcome = "success"
	}
	rc := r.rc
	after, prob := e2.ReadAll(r.st)
	if prob != nil {
		rc.Failf(outcome+":"+prob.Clause, r.facts(outcome),
			"%s import reported %s but the stores are not usable/consistent afterwards: %s: %s",
			stage, outcome, prob.Clause, prob.Msg)
	}
	// Close and reopen: the same must hold for what is on disk. (Opening
	// the database dominates a run's cost, so this is done after every
	// failed import and once at the end of every run.)
	if !ok || final {
		r.reopen(stage, outcome)
		again, prob := e2.ReadAll(r.st)
		if prob != nil {
			rc.Failf(outcome+":reopened:"+prob.Clause, r.facts(outcome),
				"%s import reported %s; after close+reopen the stores are not usable/consistent: %s: %s",
				stage, outcome, prob.Clause, prob.Msg)
		}
		if !sameContents(after, again) {
			rc.Failf(outcome+":reopen-changed-contents", r.facts(outcome),
				"%s import reported %s; contents differ after close+reopen (block tip %d -> %d, filter tip %d -> %d)",
				stage, outcome, len(after.Blocks)-1, len(again.Blocks)-1, len(after.Filters)-1, len(again.Filters)-1)
		}
	}

	bf, ff := r.bf, r.ff
	exact := ok && bf.wellFormed && ff.wellFormed
	// Block store, height for height.
	for h := range after.Blocks {
		got := after.Blocks[h].BlockHash()
		if h < len(before.Blocks) {
			// Earlier contents: on success they must be exactly
			// kept; on failure a height may hold either what it
			// held or the file's header for that height.
			if got == before.Blocks[h].BlockHash() {
				continue
			}
			if fh, in := bf.blockHashAt(h); !exact && in && fh == got {
				continue
			}
			rc.Failf(outcome+":existing-block-header-replaced", r.facts(outcome),
				"%s import reported %s; block store height %d held %v before and holds %v now",
				stage, outcome, h, before.Blocks[h].BlockHash(), got)
		}
		fh, in := bf.blockHashAt(h)
		if !in || fh != got {
			rc.Failf(outcome+":block-header-not-from-file", r.facts(outcome),
				"%s import reported %s; block store height %d (beyond the earlier tip %d) holds %v, the file (heights %d-%d) has %v there (present=%v)",
				stage, outcome, h, len(before.Blocks)-1, got, bf.start, bf.end(), fh, in)
		}
	}
	for h := range after.Filters {
		got := after.Filters[h]
		if h < len(before.Filters) {
			if got == before.Filters[h] {
				continue
			}
			if fh, in := ff.filterAt(h); !exact && in && fh == got {
				continue
			}
			rc.Failf(outcome+":existing-filter-header-replaced", r.facts(outcome),
				"%s import reported %s; filter store height %d held %v before and holds %v now",
				stage, outcome, h, before.Filters[h], got)
		}
		fh, in := ff.filterAt(h)
		if !in || fh != got {
			rc.Failf(outcome+":filter-header-not-from-file", r.facts(outcome),
				"%s import reported %s; filter store height %d (beyond the earlier tip %d) holds %v, the file (heights %d-%d) has %v there (present=%v)",
				stage, outcome, h, len(before.Filters)-1, got, ff.start, ff.end(), fh, in)
		}
	}
	if exact {
		// Earlier contents extended up to the file's last height: no
		// shorter, no longer.
		wantB := max(len(before.Blocks), bf.end()+1)
		wantF := max(len(before.Filters), ff.end()+1)
		if len(after.Blocks) != wantB {
			rc.Failf("success:block-store-wrong-length", r.facts(outcome),
				"%s import reported success; block store tip is %d, expected %d (earlier tip %d, file heights %d-%d)",
				stage, len(after.Blocks)-1, wantB-1, len(before.Blocks)-1, bf.start, bf.end())
		}
		if len(after.Filters) != wantF {
			rc.Failf("success:filter-store-wrong-length", r.facts(outcome),
				"%s import reported success; filter store tip is %d, expected %d (earlier tip %d, file heights %d-%d)",
				stage, len(after.Filters)-1, wantF-1, len(before.Filters)-1, ff.start, ff.end())
		}
	}
	// Nothing unvalidated: the block headers form a valid connected chain
	// under the target parameters (judged by the independent validator).
	if re := chainmodel.ValidateChain(r.p, after.Blocks, time.Time{}); re != nil {
		f := r.facts(outcome)
		f["rule"] = re.Rule
		pos := "interior"
		if re.Height == bf.start {
			pos = "first-of-file"
		}
		f["position"] = pos
		rc.Failf(outcome+":block-chain-invalid", f,
			"%s import reported %s; the block store now holds an invalid chain: %v (earlier tip %d, file heights %d-%d)",
			stage, outcome, re, len(before.Blocks)-1, bf.start, bf.end())
	}
	return after
}

func sameContents(a, b *e2.Contents) bool {
	if len(a.Blocks) != len(b.Blocks) || len(a.Filters) != len(b.Filters) {
		return false
	}
	for i := range a.Blocks {
		if a.Blocks[i].BlockHash() != b.Blocks[i].BlockHash() {
			return false
		}
	}
	for i := range a.Filters {
		if a.Filters[i] != b.Filters[i] {
			return false
		}
	}
	return true
}

func (r *run) reopen(stage, outcome string) {
	r.st.Close()
	saveD := r.disk.Decide
	r.disk.Decide = nil
	st, err := e2.Open(r.dir, r.disk, r.p)
	r.disk.Decide = saveD
	if err != nil {
		r.st = nil
		r.rc.Failf(outcome+":reopen-failed", r.facts(outcome),
			"%s import reported %s; the stores cannot be opened again: %v", stage, outcome, err)
	}
	r.st = st
}

// mustFail says whether the property lists the case among those the import
// reports as failure: wrong network, or a mismatch with existing data at the
// first or last overlapping height (the heights the import samples).
func (r *run) mustFail(before *e2.Contents) (bool, string) {
	bf, ff := r.bf, r.ff
	if bf.hasMeta && bf.magic != uint32(r.p.Net) {
		return true, "block file is for another network"
	}
	if ff.hasMeta && ff.magic != uint32(r.p.Net) {
		return true, "filter file is for another network"
	}
	if !bf.wellFormed || !ff.wellFormed || bf.start != ff.start || bf.count != ff.count {
		return false, ""
	}
	eff := min(len(before.Blocks), len(before.Filters)) - 1
	if bf.start > eff {
		return false, ""
	}
	for _, h := range []int{bf.start, min(eff, bf.end())} {
		if fh, _ := bf.blockHashAt(h); fh != before.Blocks[h].BlockHash() {
			return true, fmt.Sprintf("block header at overlap height %d differs from the store", h)
		}
		if fh, _ := ff.filterAt(h); fh != before.Filters[h] {
			return true, fmt.Sprintf("filter header at overlap height %d differs from the store", h)
		}
	}
	return false, ""
}

func (r *run) checkMustFail(stage string, before *e2.Contents, err error) {
	if mf, why := r.mustFail(before); mf && err == nil {
		clause := "overlap-mismatch-accepted"
		if strings.Contains(why, "network") {
			clause = "wrong-network-accepted"
		}
		r.rc.Failf(clause, r.facts("success"), "the %s import reported success although the %s", stage, why)
	}
}

func bucket(n int) string {
	switch {
	case n <= 0:
		return "0"
	case n == 1:
		return "1"
	case n <= 4:
		return "2-4"
	case n <= 16:
		return "5-16"
	}
	return "17+"
}

// RunC14 is one simulated import case.
func RunC14(t *testing.T, rc *core.RunCtx) {
	tp := rc.Tape
	maxTip, maxLen := 24, 20
	if rc.Tier == "thorough" {
		maxTip, maxLen = 56, 48
	}
	r := &run{rc: rc, tp: tp}

	// ---- every choice of the case, drawn up front ----
	retarget := []int{0, 8, 16}[tp.Intn(3)]
	minDiff := tp.Chance(1, 4)
	vfloor := []int32{0, 1, 6}[tp.Intn(3)]
	r.stride, r.off = tp.Intn(25), tp.Intn(25)
	r.B = tp.Intn(maxTip + 1)
	lag := 0
	if r.B > 0 && tp.Chance(1, 5) {
		lag = 1 + tp.Intn(r.B)
	}
	r.F = r.B - lag
	eff := r.F
	startKind := "zero"
	switch w := tp.Intn(10); {
	case w < 3:
		r.s = 0
	case w < 6:
		r.s, startKind = eff+1, "tip+1"
	case w < 9:
		if eff >= 1 {
			r.s, startKind = 1+tp.Intn(eff), "inside"
		}
	default:
		r.s, startKind = eff+2+tp.Intn(3), "gap"
	}
	r.n = 1 + tp.Intn(maxLen)
	r.e = r.s + r.n - 1
	r.bs = tp.Intn(r.n + 3) // 0 = the import's default batch size
	chunk := 1 + tp.Intn(8)
	if tp.Chance(1, 2) {
		r.anomaly = anomalyTable[tp.Intn(len(anomalyTable))]
	}
	// Anomaly parameters.
	var (
		forkAt, badPos, where, which, mval, disagree, rollback int
		brk                                                    string
		flips                                                  [][3]int
		cutBlock, cutFilter, cutSame                           int
	)
	switch r.anomaly {
	case anWrongMagic:
		which = 1 + tp.Intn(3)
		mval = tp.Intn(4)
	case anFork:
		if r.B == 0 {
			r.anomaly = anNone
		} else {
			forkAt = tp.Intn(r.B)
		}
	case anFilterMismatch:
		where = tp.Intn(3)
	case anInvalidHeader:
		badPos = tp.Intn(r.n)
		brk = []string{"pow", "bits", "median-time", "version"}[tp.Intn(4)]
		if brk == "version" && vfloor == 0 {
			vfloor = 1
		}
	case anCorrupt:
		for i, k := 0, 1+tp.Intn(3); i < k; i++ {
			flips = append(flips, [3]int{tp.Intn(2), tp.Intn(1 << 20), 1 + tp.Intn(255)})
		}
	case anTruncate:
		which = 1 + tp.Intn(3)
		cutSame = tp.Intn(2)
		cutBlock, cutFilter = tp.Intn(1<<20), tp.Intn(1<<20)
	case anFilesDisagree:
		disagree = tp.Intn(4)
	case anFilterAhead:
		if r.B == 0 {
			r.anomaly = anNone
		} else {
			r.F, lag, eff = r.B, 0, r.B
			rollback = 1 + tp.Intn(r.B)
		}
	}
	// Fault plan: at most one injected store write failure, at the k-th
	// write step (flat-file write or index commit) of the first import.
	bsEff := r.bs
	if bsEff == 0 {
		bsEff = 65536
	}
	newCnt := max(0, r.e-r.B)
	steps := 4 * ((newCnt + bsEff - 1) / bsEff)
	if tp.Chance(1, 3) {
		r.faulty = true
		r.faultAt = 1 + tp.Intn(max(steps, 1))
		r.short = tp.Chance(1, 2)
		r.shortK = tp.Intn(80)
	}
	if !r.faulty && tp.Chance(1, 4) {
		r.cancelPlan = true
		if !tp.Chance(1, 2) {
			r.cancelAt = 1 + tp.Intn(max(steps, 1))
		}
	}

	// ---- build the world ----
	r.p = chainmodel.NewParams(chainmodel.ParamOpts{RetargetInterval: retarget,
		ReduceMinDifficulty: minDiff, VersionFloor: vfloor})
	r.tree = chainmodel.NewTree(r.p)
	x := r.mineTo(r.tree.Genesis, r.B) // the chain the stores hold
	y := x                             // the chain the files are cut from
	switch r.anomaly {
	case anFork:
		base := x.Ancestor(int32(forkAt))
		y = r.mineTo(base, max(r.e, forkAt+1))
		r.anomalyDetail = fmt.Sprintf("file chain forks from the store chain after height %d", forkAt)
	case anInvalidHeader:
		hk := r.s + badPos
		if hk == 0 {
			hk = 1
		}
		var base *chainmodel.Block
		if hk-1 <= r.B {
			base = x.Ancestor(int32(hk - 1))
		} else {
			base = r.mineTo(x, hk-1)
		}
		y = r.mineOne(base, brk)
		y = r.mineTo(y, r.e)
		r.anomalyDetail = fmt.Sprintf("header at height %d breaks rule %q", hk, brk)
	default:
		y = r.mineTo(x, r.e)
	}
	ychain := y.Chain()
	xchain := x.Chain()

	tmpl, err := e2.Template()
	if err != nil {
		rc.Infra("template: %v", err)
	}
	r.dir = filepath.Join(rc.Dir, "data")
	if err := fault.CopyDir(tmpl, r.dir); err != nil {
		rc.Infra("copy template: %v", err)
	}
	r.disk = fault.NewDisk()
	r.st, err = e2.Open(r.dir, r.disk, r.p)
	if err != nil {
		rc.Infra("open fresh stores: %v", err)
	}
	defer func() {
		if r.st != nil {
			r.st.Close()
		}
	}()
	r.populate(xchain, r.B, r.F, chunk)

	// ---- the import files ----
	blockRaw := metaBytes(uint32(r.p.Net), 0, byte(headerfs.Block), uint32(r.s))
	filterRaw := metaBytes(uint32(r.p.Net), 0, byte(headerfs.RegularFilter), uint32(r.s))
	for h := r.s; h <= r.e; h++ {
		blockRaw = append(blockRaw, hdrBytes(&ychain[h].Hdr)...)
		fh := r.tree.FilterHeader(ychain[h])
		filterRaw = append(filterRaw, fh[:]...)
	}
	switch r.anomaly {
	case anWrongMagic:
		m := []wire.BitcoinNet{wire.MainNet, wire.TestNet3, wire.SimNet, 0}[mval]
		if which&1 != 0 {
			binary.LittleEndian.PutUint32(blockRaw[0:4], uint32(m))
		}
		if which&2 != 0 {
			binary.LittleEndian.PutUint32(filterRaw[0:4], uint32(m))
		}
		r.anomalyDetail = fmt.Sprintf("network magic %08x in files %02b", uint32(m), which)
	case anFilterMismatch:
		last := min(r.e, eff)
		if r.s > last {
			r.anomaly = anNone
			break
		}
		h := r.s
		pos := "first"
		switch {
		case where == 1:
			h, pos = last, "last"
		case where == 2 && last-r.s >= 2:
			h, pos = r.s+1+(r.off%(last-r.s-1)), "interior"
		}
		filterRaw[metaSize+(h-r.s)*32+5] ^= 0x40
		r.anomalyDetail = fmt.Sprintf("file's filter header at %s overlap height %d differs from the store", pos, h)
	case anCorrupt:
		for _, f := range flips {
			buf := blockRaw
			if f[0] == 1 {
				buf = filterRaw
			}
			buf[f[1]%len(buf)] ^= byte(f[2])
			r.anomalyDetail += fmt.Sprintf("file %d byte %d ^= %02x; ", f[0], f[1]%len(buf), f[2])
		}
	case anTruncate:
		if cutSame == 1 && which == 3 {
			k := cutBlock % r.n // whole headers kept in both files
			blockRaw = blockRaw[:metaSize+k*80]
			filterRaw = filterRaw[:metaSize+k*32]
		} else {
			if which&1 != 0 {
				blockRaw = blockRaw[:cutBlock%len(blockRaw)]
			}
			if which&2 != 0 {
				filterRaw = filterRaw[:cutFilter%len(filterRaw)]
			}
		}
		r.anomalyDetail = fmt.Sprintf("files cut to %d and %d bytes", len(blockRaw), len(filterRaw))
	case anFilesDisagree:
		switch disagree {
		case 0:
			binary.LittleEndian.PutUint32(filterRaw[6:10], uint32(r.s+1))
			r.anomalyDetail = "filter file claims start height +1"
		case 1:
			if r.s > 0 {
				binary.LittleEndian.PutUint32(filterRaw[6:10], uint32(r.s-1))
			}
			r.anomalyDetail = "filter file claims start height -1"
		case 2:
			filterRaw = filterRaw[:len(filterRaw)-32]
			r.anomalyDetail = "filter file one header short"
		default:
			filterRaw = append(filterRaw, filterRaw[len(filterRaw)-32:]...)
			r.anomalyDetail = "filter file one header long"
		}
	}
	r.blockPath = filepath.Join(rc.Dir, "block_headers.import")
	r.filterPath = filepath.Join(rc.Dir, "filter_headers.import")
	if err := os.WriteFile(r.blockPath, blockRaw, 0644); err != nil {
		rc.Infra("write import file: %v", err)
	}
	if err := os.WriteFile(r.filterPath, filterRaw, 0644); err != nil {
		rc.Infra("write import file: %v", err)
	}
	r.bf = parseFile(blockRaw, 80, byte(headerfs.Block))
	r.ff = parseFile(filterRaw, 32, byte(headerfs.RegularFilter))

	batchRel := "default"
	if r.bs > 0 {
		switch {
		case newCnt == 0:
			batchRel = "nothing-new"
		case r.bs >= newCnt:
			batchRel = "one-batch"
		case newCnt%r.bs == 0:
			batchRel = "divides"
		default:
			batchRel = "remainder"
		}
	}
	rc.Logf("case: stores block tip %d filter tip %d; file heights %d-%d (start %s); batch size %d (%s); anomaly %s %s; fault plan faulty=%v at step %d short=%v cancel=%v at %d; retarget=%d mindiff=%v vfloor=%d",
		r.B, r.F, r.s, r.e, startKind, r.bs, batchRel, anomalyNames[r.anomaly], r.anomalyDetail,
		r.faulty, r.faultAt, r.short, r.cancelPlan, r.cancelAt, retarget, minDiff, vfloor)
	rc.Res.Sample = map[string]any{"block_tip": r.B, "filter_tip": r.F, "file_start": r.s, "file_end": r.e,
		"batch": r.bs, "anomaly": anomalyNames[r.anomaly], "faulty": r.faulty}
	rc.Probe("start_" + startKind)
	rc.Probe("batch_" + batchRel)
	rc.Probe("anomaly_" + anomalyNames[r.anomaly])
	if lag > 0 {
		rc.Probe("block_store_ahead")
	}

	if r.anomaly == anFilterAhead {
		r.filterAheadCase(rollback)
		return
	}

	before, prob := e2.ReadAll(r.st)
	if prob != nil {
		rc.Infra("stores inconsistent before the import: %s: %s", prob.Clause, prob.Msg)
	}

	// ---- first import, possibly with one injected write failure ----
	r.disk.Decide = func(kind, file string, n int) int {
		r.opp++
		if r.cancelArm && r.ctxCancel != nil && r.cancelAt > 0 && r.opp == r.cancelAt {
			r.firedKind = "cancel.at-write"
			r.ctxCancel()
		}
		if !r.armed || r.opp != r.faultAt {
			return 0
		}
		r.firedKind = kind
		if kind == fault.KindWrite && r.short && n > 0 {
			r.firedKind = kind + ".short"
			return 2 + r.shortK%n
		}
		return 1
	}
	r.armed = r.faulty
	r.cancelArm = r.cancelPlan
	err1 := r.doImport("first")
	r.armed = false
	r.cancelArm = false
	rc.Res.Steps++
	cls := errClass(err1)
	rc.Logf("first import: %v (class %s; write steps seen %d, fault fired: %q)", err1, cls, r.opp, r.firedKind)
	rc.Probe("first_" + cls)
	if r.firedKind != "" {
		rc.Fault(r.firedKind)
	}
	r.checkMustFail("first", before, err1)
	after1 := r.judge("first", err1 == nil, err1 != nil && r.firedKind == "", before)
	added := len(after1.Blocks) - len(before.Blocks) + len(after1.Filters) - len(before.Filters)
	rc.State(fmt.Sprintf("first|%s|start=%s|lag=%s|batch=%s|anomaly=%s|fault=%s|added=%s|len=%s", cls, startKind,
		bucket(lag), batchRel, anomalyNames[r.anomaly], r.firedKind, bucket(added), bucket(r.n)))
	if err1 == nil && added > 0 {
		rc.Probe("success_added_headers")
		if r.s > 0 {
			rc.Probe("success_added_headers_nonzero_start")
		}
		if batchRel == "remainder" {
			rc.Probe("success_added_headers_batch_remainder")
		}
	}
	if err1 != nil && added > 0 {
		rc.Probe("failure_after_partial_append")
	}
	if lag > 0 {
		switch {
		case err1 == nil && len(after1.Filters) > len(before.Filters):
			rc.Probe("block_ahead_filter_store_caught_up")
		case err1 == nil:
			rc.Probe("block_ahead_success_nothing_new")
		default:
			rc.Probe("block_ahead_refused_" + cls)
		}
	}
	if err1 == nil && added == 0 {
		rc.Probe("success_nothing_new")
	}
	if r.anomaly == anInvalidHeader {
		switch {
		case badPos == 0:
			rc.Probe("invalid_header_first_of_file_" + cls)
		case r.bs > 0 && badPos%r.bs == 0:
			rc.Probe("invalid_header_first_of_batch_" + cls)
		default:
			rc.Probe("invalid_header_inside_batch_" + cls)
		}
	}

	switch {
	case err1 == nil:
		// ---- repeating the import changes nothing ----
		err2 := r.doImport("second")
		rc.Res.Steps++
		rc.Logf("second import: %v", err2)
		after2 := r.judge("second", err2 == nil, true, after1)
		if !sameContents(after1, after2) {
			rc.Failf("repeat-changed-stores", r.facts("success"),
				"repeating a successful import changed the stores: block tip %d -> %d, filter tip %d -> %d",
				len(after1.Blocks)-1, len(after2.Blocks)-1, len(after1.Filters)-1, len(after2.Filters)-1)
		}
		if err2 != nil {
			rc.Probe("second_import_failed")
		}
		rc.State("second|" + errClass(err2))
	case r.firedKind != "":
		// ---- the same import again without the fault: the stores a
		// failed import leaves are a starting state like any other ----
		rc.Probe("retry_after_injected_failure")
		err3 := r.doImport("retry")
		rc.Res.Steps++
		rc.Logf("retry import: %v", err3)
		r.checkMustFail("retry", after1, err3)
		after3 := r.judge("retry", err3 == nil, true, after1)
		if err3 == nil && len(after3.Blocks) > len(after1.Blocks) {
			rc.Probe("retry_success_added_headers")
		}
		rc.State("retry|" + errClass(err3))
	}
	rc.Res.Nontrivial = added > 0 || err1 != nil
}

// filterAheadCase: the block store is rolled back below the filter store's
// tip. With the real stores the filter tip is then not resolvable (it is
// looked up through the block index), so the precondition "usable stores"
// does not hold and the only demands made are that the import reports failure
// or success without a panic and that the block store holds only what it held.
func (r *run) filterAheadCase(rollback int) {
	rc := r.rc
	if _, err := r.st.Block.RollbackBlockHeaders(uint32(rollback)); err != nil {
		rc.Infra("rollback for filter-ahead case: %v", err)
	}
	var before []wire.BlockHeader
	_, tip, err := r.st.Block.ChainTip()
	if err != nil {
		rc.Infra("block tip: %v", err)
	}
	for h := uint32(0); h <= tip; h++ {
		hd, err := r.st.Block.FetchHeaderByHeight(h)
		if err != nil {
			rc.Infra("block read: %v", err)
		}
		before = append(before, *hd)
	}
	_, _, ferr := r.st.Filter.ChainTip()
	if ferr == nil {
		rc.Probe("filter_ahead_tip_readable")
	}
	err1 := r.doImport("first")
	rc.Res.Steps++
	rc.Logf("filter-ahead: filter tip readable=%v; import: %v", ferr == nil, err1)
	rc.Probe("first_" + errClass(err1))
	if ferr != nil {
		// Nothing may have been written.
		_, tip2, err := r.st.Block.ChainTip()
		if err != nil || tip2 != tip {
			rc.Failf("failure:block-store-changed-with-unreadable-filter-store", r.facts("failure"),
				"filter store tip unreadable before the import, yet the block store tip moved %d -> %d (%v)", tip, tip2, err)
		}
		for h := uint32(0); h <= tip; h++ {
			hd, err := r.st.Block.FetchHeaderByHeight(h)
			if err != nil || hd.BlockHash() != before[h].BlockHash() {
				rc.Failf("failure:block-store-changed-with-unreadable-filter-store", r.facts("failure"),
					"block store height %d changed (%v)", h, err)
			}
		}
	}
	rc.State("filter-ahead|" + errClass(err1))
	rc.Res.Nontrivial = true
}
