package c14

import (
	"os"
	"testing"

	"verif/sim/core"
	"verif/sim/e2"
)

func TestRun(t *testing.T) { core.MainRegistered(t) }

// TestMain removes the pre-initialised store template (created lazily under
// the scratch root by e2.Template) when the process ends.
func TestMain(m *testing.M) {
	code := m.Run()
	e2.RemoveTemplate()
	os.Exit(code)
}
