package c12

import (
	"crypto/sha256"
	"fmt"
	"sort"
	"strings"
	"sync"
	"testing"
	"testing/synctest"
	"time"

	"github.com/btcsuite/btcd/wire/v2"
	"github.com/lightninglabs/neutrino/query"

	"verif/sim/core"
)

func init() { core.Register("C12", RunC12) }

// RunC12 is the engine function for C12.
func RunC12(t *testing.T, rc *core.RunCtx) {
	bubble(t, rc, func() { runC12(rc) })
}

// Response kinds, carried in the low two bits of the pong nonce. The request
// handler is a pure function of (request, response): the simulator decides the
// outcome when it builds the response, never inside the handler.
const (
	kFinal       = 0 // Progress{Finished: true, Progressed: true}
	kProgress    = 1 // Progress{Progressed: true}
	kJunk        = 2 // Progress{}
	kFinalNoProg = 3 // Progress{Finished: true}
)

type evKind int

const (
	evOffer evKind = iota
	evHandle
	evOrder
	evAdd
	evReward
	evPunish
	evReset
	evMaxTries
	evSubscribe
	evUnsubscribe
)

// event is one observation made at a seam (peer, handler, ranking). Events
// are appended under sim.mu by whichever goroutine makes the observation and
// are evaluated by the main goroutine at quiescence.
type event struct {
	seq  int
	at   time.Duration
	kind evKind
	peer *simPeer
	addr string
	req  *simReq
	resp int  // evHandle: response kind, -1 = not for this request
	fin  bool // evHandle: handler returned Finished
	// evOrder: the list as the real ranking left it, the model score and
	// the liveness of each entry at that moment.
	list  []string
	score []int
	alive []bool
	perm  bool // evOrder: result is a permutation of the input
}

type simReq struct {
	id       int
	batch    *simBatch
	msg      *wire.MsgPing
	offers   []*event
	finished bool
	calls    int
}

type simBatch struct {
	id      int
	reqs    []*simReq
	cap     int // -1 = unlimited retries
	hard    time.Duration
	prog    time.Duration
	cancel  chan struct{}
	desc    string
	afterSt bool // submitted after Stop was called

	submitAt   time.Duration
	ch         chan error
	returned   bool
	verdicts   []error
	hasVerdict bool
	verdictAt  time.Duration
	// lastArmAt: when the idle window of the batch last (re)started:
	// submission, or the dispatcher recording a success of the batch.
	lastArmAt time.Duration
}

type simPeer struct {
	id    int
	addr  string
	disc  chan struct{}
	msgCh chan wire.Message
	s     *sim

	// guarded by sim.mu
	disconnected bool
	cur          *simReq
	curFinalSent bool
	subscribed   int
	nOffers      int
}

func (p *simPeer) QueueMessageWithEncoding(msg wire.Message, _ chan<- struct{}, _ wire.MessageEncoding) {
	s := p.s
	s.mu.Lock()
	defer s.mu.Unlock()
	ping, ok := msg.(*wire.MsgPing)
	if !ok || int(ping.Nonce) >= len(s.reqs) {
		s.bad = fmt.Sprintf("peer %s was sent a message that is no request of this run: %T", p.addr, msg)
		return
	}
	r := s.reqs[ping.Nonce]
	p.cur, p.curFinalSent = r, false
	s.add(&event{kind: evOffer, peer: p, addr: p.addr, req: r})
	p.nOffers++
	d := sendDelay(p.id, p.nOffers)
	s.sending++
	s.mu.Unlock()
	// Handing a message to a peer takes a few simulated microseconds, a
	// different amount every time. The worker starts its per-request
	// timer after this call; without the jitter two requests dispatched in
	// the same instant would time out in the same instant, and the order
	// in which the runtime fires same-instant timers is not reproducible.
	time.Sleep(d)
	s.mu.Lock()
	s.sending--
}

// sendDelay is a fixed pseudo-random function of (peer, how many requests the
// peer was sent): 1us .. 51us.
func sendDelay(peer, n int) time.Duration {
	x := uint64(peer+1)*0x9e3779b97f4a7c15 + uint64(n)*0xbf58476d1ce4e5b9
	x ^= x >> 31
	x *= 0x94d049bb133111eb
	x ^= x >> 29
	return time.Microsecond + time.Duration(x%50000)
}

func (p *simPeer) SubscribeRecvMsg() (<-chan wire.Message, func()) {
	s := p.s
	s.mu.Lock()
	defer s.mu.Unlock()
	p.subscribed++
	s.add(&event{kind: evSubscribe, peer: p, addr: p.addr})
	return p.msgCh, func() {
		s.mu.Lock()
		defer s.mu.Unlock()
		p.subscribed--
		s.add(&event{kind: evUnsubscribe, peer: p, addr: p.addr})
	}
}

func (p *simPeer) Addr() string                  { return p.addr }
func (p *simPeer) OnDisconnect() <-chan struct{} { return p.disc }

// rankSpy wraps the real query.PeerRanking. Every call is delegated to the
// real ranking; the wrapper (1) puts the candidate list, which the dispatcher
// builds by iterating a Go map, into a tape-determined order first so the
// run does not depend on the runtime's map iteration order, and (2) records
// the calls so the oracle can keep a model of each peer's record.
type rankSpy struct {
	real query.PeerRanking
	s    *sim
}

func (k *rankSpy) AddPeer(a string) {
	k.real.AddPeer(a)
	s := k.s
	s.mu.Lock()
	defer s.mu.Unlock()
	if _, ok := s.score[a]; !ok {
		s.score[a] = 4
	}
	s.add(&event{kind: evAdd, addr: a})
}

func (k *rankSpy) Reward(a string) {
	s := k.s
	// A tape-decided stall of the dispatcher while it is recording a
	// success (time passes, so timers can fire and queue up behind it).
	s.mu.Lock()
	d := s.stallNext
	s.stallNext = 0
	s.stalling = d > 0
	s.mu.Unlock()
	if d > 0 {
		time.Sleep(d)
		s.mu.Lock()
		s.stalling = false
		s.mu.Unlock()
	}
	k.real.Reward(a)
	s.mu.Lock()
	defer s.mu.Unlock()
	if v := s.scoreOf(a); v > 0 {
		s.score[a] = v - 1
	}
	s.add(&event{kind: evReward, addr: a})
}

func (k *rankSpy) Punish(a string) {
	k.real.Punish(a)
	s := k.s
	s.mu.Lock()
	defer s.mu.Unlock()
	if v := s.scoreOf(a); v < 8 {
		s.score[a] = v + 1
	}
	s.add(&event{kind: evPunish, addr: a})
}

func (k *rankSpy) ResetRanking(a string) {
	k.real.ResetRanking(a)
	s := k.s
	s.mu.Lock()
	defer s.mu.Unlock()
	s.score[a] = 4
	s.add(&event{kind: evReset, addr: a})
}

func (k *rankSpy) Order(peers []string) {
	s := k.s
	s.mu.Lock()
	sort.SliceStable(peers, func(i, j int) bool {
		ki, kj := s.tie[peers[i]], s.tie[peers[j]]
		if ki != kj {
			return ki < kj
		}
		return peers[i] < peers[j]
	})
	in := append([]string(nil), peers...)
	s.mu.Unlock()

	k.real.Order(peers)

	s.mu.Lock()
	defer s.mu.Unlock()
	e := &event{kind: evOrder, list: append([]string(nil), peers...), perm: true}
	a, b := append([]string(nil), in...), append([]string(nil), peers...)
	sort.Strings(a)
	sort.Strings(b)
	if strings.Join(a, ",") != strings.Join(b, ",") {
		e.perm = false
	}
	for _, p := range peers {
		e.score = append(e.score, s.scoreOf(p))
		lp := s.byAddr[p]
		e.alive = append(e.alive, lp != nil && !lp.disconnected)
	}
	s.add(e)
}

type sim struct {
	rc    *core.RunCtx
	tp    *core.Tape
	start time.Time
	mgr   query.WorkManager

	mu     sync.Mutex
	events []*event
	score  map[string]int
	tie    map[string]int
	byAddr map[string]*simPeer // latest announced peer per address
	bad    string
	reqs   []*simReq
	// stallNext, when non-zero, makes the dispatcher's next Reward call
	// take that long; stalling is true while it does.
	stallNext time.Duration
	stalling  bool
	// sending counts workers that are inside a peer's send delay.
	sending int

	// main goroutine only
	evDone     int
	peers      []*simPeer
	batches    []*simBatch
	peerCh     chan query.Peer
	stopCalled bool
	stopDone   bool
	addrReused bool // a new connection used the address of an earlier, finished connection
	// addrReplaced: a connection was replaced by a new one from the same
	// address within one step (old drop and new connect race).
	addrReplaced bool
	faulty       bool
	lastOrder    map[string]*event
	rewards      map[string]int
	expRewards   map[string]int
	failRec      map[string][]*event // Punish/Reset events per address
	nextAddr     int
	offersTotal  int
	reissues     int
	lastCancel   chan struct{}
	finalRan     bool
	// pendingReward: the batch whose success on this address is about to be
	// recorded; mustEnd: batches that had a result processed past their
	// hard deadline in this step and therefore must have a verdict now.
	pendingReward map[string]*simBatch
	mustEnd       []*simBatch
	stallD        time.Duration
	// stallProbe names what the pending dispatcher stall is for.
	stallProbe string
	// pairStale: the request whose answer was handed to a worker while the
	// dispatcher was busy recording another success of the same batch and
	// the batch's hard deadline lay before the end of that stall: the batch
	// ends before the dispatcher sees this second success.
	pairStale *simReq
	quanta    int
	digest    [32]byte
	chains    map[string][32]byte
	cancelled map[chan struct{}]bool
	maxLive   int
}

// scoreOf is the oracle's model of a peer's record: 4 for a peer without
// history, one better per recorded success (best 0), one worse per recorded
// failure (worst 8), back to 4 on disconnect. s.mu must be held.
func (s *sim) scoreOf(a string) int {
	if v, ok := s.score[a]; ok {
		return v
	}
	return 4
}

func (s *sim) now() time.Duration { return time.Since(s.start) }

// add appends an event; s.mu must be held.
func (s *sim) add(e *event) {
	e.seq = len(s.events)
	e.at = time.Since(s.start)
	s.events = append(s.events, e)
}

func (s *sim) facts() map[string]string {
	return map[string]string{
		"addr_replaced": fmt.Sprint(s.addrReplaced),
		"addr_reused":   fmt.Sprint(s.addrReused),
		"faults":        fmt.Sprint(s.faulty),
	}
}

func (s *sim) factsWith(k, v string) map[string]string {
	f := s.facts()
	f[k] = v
	return f
}

func errName(err error) string {
	switch err {
	case nil:
		return "nil"
	case query.ErrQueryTimeout:
		return "timeout"
	case query.ErrPeerDisconnected:
		return "disconnected"
	case query.ErrJobCanceled:
		return "canceled"
	case query.ErrWorkManagerShuttingDown:
		return "shutdown"
	}
	return "other"
}

// handler builds the HandleResp closure of a request.
func (s *sim) handler(r *simReq) func(req, resp wire.Message, peer string) query.Progress {
	return func(req, resp wire.Message, peer string) query.Progress {
		s.mu.Lock()
		defer s.mu.Unlock()
		r.calls++
		e := &event{kind: evHandle, addr: peer, req: r, resp: -1}
		var out query.Progress
		if pong, ok := resp.(*wire.MsgPong); ok && int(pong.Nonce>>2) == r.id && req == wire.Message(r.msg) {
			e.resp = int(pong.Nonce & 3)
			switch e.resp {
			case kFinal:
				out = query.Progress{Finished: true, Progressed: true}
			case kFinalNoProg:
				out = query.Progress{Finished: true}
			case kProgress:
				out = query.Progress{Progressed: true}
			}
		}
		e.fin = out.Finished
		s.add(e)
		return out
	}
}

func respFor(r *simReq, kind int) wire.Message {
	return &wire.MsgPong{Nonce: uint64(r.id)<<2 | uint64(kind)}
}

// flushSends lets simulated time pass until no worker is inside a peer's
// send delay any more, so that at the end of a step every live worker is
// parked in one of its selects.
func (s *sim) flushSends() {
	for i := 0; ; i++ {
		s.mu.Lock()
		n, st := s.sending, s.stalling
		s.mu.Unlock()
		if n == 0 || st {
			return
		}
		if i > 1000 {
			s.rc.Infra("peer send delays do not drain")
		}
		time.Sleep(60 * time.Microsecond)
		synctest.Wait()
	}
}

// deliver hands one message to the peer's subscriber if it is ready to take
// it right now (it always is at quiescence unless the worker has exited or is
// stuck handing in a result).
func (s *sim) deliver(p *simPeer, m wire.Message) bool {
	select {
	case p.msgCh <- m:
		return true
	default:
		return false
	}
}

func (s *sim) connected() []*simPeer {
	var out []*simPeer
	for _, p := range s.peers {
		if !p.disconnected {
			out = append(out, p)
		}
	}
	return out
}

func (s *sim) newPeer(addr string) *simPeer {
	p := &simPeer{id: len(s.peers), addr: addr, s: s,
		disc: make(chan struct{}), msgCh: make(chan wire.Message)}
	s.peers = append(s.peers, p)
	return p
}

// announce makes the peer known to the dispatcher through the ConnectedPeers
// stream.
func (s *sim) announce(p *simPeer, tie int) {
	s.mu.Lock()
	s.byAddr[p.addr] = p
	s.tie[p.addr] = tie
	s.mu.Unlock()
	select {
	case s.peerCh <- p:
	default:
		s.rc.Infra("peer stream buffer full")
	}
}

func (s *sim) disconnect(p *simPeer) {
	s.mu.Lock()
	p.disconnected = true
	s.mu.Unlock()
	close(p.disc)
}

// liveBatches are the batches that have no verdict yet.
func (s *sim) liveBatches() []*simBatch {
	var out []*simBatch
	for _, b := range s.batches {
		if b.returned && !b.hasVerdict {
			out = append(out, b)
		}
	}
	return out
}

var (
	hardChoices = []time.Duration{-1, 65*time.Second + time.Millisecond, 17*time.Second + time.Millisecond,
		9701 * time.Millisecond, 3301 * time.Millisecond, 701 * time.Millisecond, 0}
	progChoices = []time.Duration{0, 13349 * time.Millisecond, 6131 * time.Millisecond,
		2917 * time.Millisecond, 903 * time.Millisecond}
	sleepChoices = []time.Duration{100 * time.Millisecond, 500 * time.Millisecond, time.Second,
		2100 * time.Millisecond, 4500 * time.Millisecond, 9 * time.Second, 17 * time.Second,
		33 * time.Second, 65 * time.Second}
)

// submit hands a new batch to the dispatcher (Query is called on its own
// goroutine because it blocks until the dispatcher takes the batch).
func (s *sim) submit(nReq int, plain bool) *simBatch {
	tp := s.tp
	b := &simBatch{id: len(s.batches), cap: 2, hard: 30 * time.Second, afterSt: s.stopCalled}
	var opts []query.QueryOption
	var d []string
	if !plain {
		switch tp.Intn(6) {
		case 1:
			opts, b.cap = append(opts, query.NoRetryMax()), -1
			d = append(d, "noretrymax")
		case 2:
			opts, b.cap = append(opts, query.NumRetries(1)), 1
			d = append(d, "retries=1")
		case 3:
			opts, b.cap = append(opts, query.NumRetries(3)), 3
			d = append(d, "retries=3")
		case 4:
			opts, b.cap = append(opts, query.NumRetries(0)), 0
			d = append(d, "retries=0")
		case 5:
			n := tp.Intn(2)
			opts, b.cap = append(opts, query.NumRetries(uint8(n)), query.NoRetryMax()), -1
			d = append(d, fmt.Sprintf("retries=%d+noretrymax", n))
		}
		if h := hardChoices[tp.Intn(len(hardChoices))]; h >= 0 {
			opts = append(opts, query.Timeout(h))
			b.hard = h
			if h == 0 {
				b.hard = 1 // Timeout(<=0) is documented to fire at once
			}
			d = append(d, fmt.Sprintf("timeout=%v", h))
		}
		if p := progChoices[tp.Intn(len(progChoices))]; p > 0 {
			opts = append(opts, query.ProgressTimeout(p))
			b.prog = p
			d = append(d, fmt.Sprintf("progress=%v", p))
		}
		switch tp.Intn(4) {
		case 1, 2:
			b.cancel = make(chan struct{})
			d = append(d, "cancel")
		case 3:
			if s.lastCancel != nil && !s.cancelled[s.lastCancel] {
				b.cancel = s.lastCancel
				d = append(d, "cancel(shared)")
			} else {
				b.cancel = make(chan struct{})
				d = append(d, "cancel")
			}
		}
		if b.cancel != nil {
			opts = append(opts, query.Cancel(b.cancel))
			s.lastCancel = b.cancel
		}
	}
	b.desc = strings.Join(d, ",")
	var qreqs []*query.Request
	s.mu.Lock()
	for i := 0; i < nReq; i++ {
		r := &simReq{id: len(s.reqs), batch: b}
		r.msg = wire.NewMsgPing(uint64(r.id))
		s.reqs = append(s.reqs, r)
		b.reqs = append(b.reqs, r)
		qreqs = append(qreqs, &query.Request{Req: r.msg, HandleResp: s.handler(r)})
	}
	s.mu.Unlock()
	s.batches = append(s.batches, b)
	b.submitAt = s.now()
	b.lastArmAt = b.submitAt
	s.rc.Logf("submit batch %d: %d requests (first id %d) opts[%s]", b.id, nReq, b.reqs[0].id, b.desc)
	go func() {
		ch := s.mgr.Query(qreqs, opts...)
		s.mu.Lock()
		b.ch, b.returned = ch, true
		s.mu.Unlock()
	}()
	synctest.Wait()
	s.mu.Lock()
	ret := b.returned
	s.mu.Unlock()
	if !ret {
		s.rc.Failf("query-blocked", s.facts(),
			"Query for batch %d did not return: the dispatcher is not taking new batches (%s)", b.id, s.stuckSummary())
	}
	return b
}

func (s *sim) stuckSummary() string {
	var live []string
	for _, b := range s.liveBatches() {
		live = append(live, fmt.Sprintf("b%d[%s]", b.id, b.desc))
	}
	return fmt.Sprintf("live batches %v, %d peers connected, t=%v", live, len(s.connected()), s.now())
}

// processEvents evaluates the observations made since the last quiescence.
func (s *sim) processEvents() {
	s.mu.Lock()
	evs := s.events[s.evDone:]
	s.evDone = len(s.events)
	bad := s.bad
	s.mu.Unlock()
	rc := s.rc
	if bad != "" {
		rc.Infra("%s", bad)
	}
	for _, e := range evs {
		rid := -1
		if e.req != nil {
			rid = e.req.id
		}
		// Detailed history digest: one hash chain per source (the
		// dispatcher goroutine; each peer address for what its workers
		// do), because the interleaving of different goroutines within
		// one quiescent step is not part of the observable behaviour.
		if e.kind != evSubscribe && e.kind != evUnsubscribe {
			src := "dispatcher"
			if e.kind == evOffer || e.kind == evHandle {
				src = e.addr
			}
			s.chains[src] = sha256.Sum256([]byte(fmt.Sprintf("%x|%d|%s|%d|%v|%v|%v", s.chains[src], e.kind, e.addr, rid, e.at, e.list, e.fin)))
		}
		switch e.kind {
		case evOffer:
			r, b := e.req, e.req.batch
			rc.Logf("  [%v] request %d (batch %d) queued to peer %s#%d", e.at, r.id, b.id, e.addr, e.peer.id)
			s.offersTotal++
			// The dispatcher consulted the ranking with a list of
			// free peers containing this one before handing it the
			// job; no other live free peer may have had a strictly
			// better record.
			o := s.lastOrder[e.addr]
			if o == nil {
				rc.Failf("rank-not-consulted", s.facts(),
					"request %d was given to peer %s without the ranking having been asked to order a list containing it", r.id, e.addr)
			}
			delete(s.lastOrder, e.addr)
			mine, nElig, differ := -1, 0, false
			for i, a := range o.list {
				if a == e.addr {
					mine = o.score[i]
				}
			}
			for i, a := range o.list {
				if a == e.addr || !o.alive[i] {
					continue
				}
				nElig++
				if o.score[i] != mine {
					differ = true
				}
				if o.score[i] < mine {
					rc.Failf("rank-preference", s.facts(),
						"request %d was given to free peer %s (score %d) although free peer %s had a better record (score %d); candidates %v scores %v",
						r.id, e.addr, mine, a, o.score[i], o.list, o.score)
				}
			}
			if nElig > 0 && differ {
				rc.Probe("rank_choice_between_unequal_peers")
			}
			if nElig > 0 {
				rc.Probe("rank_choice_between_several_free_peers")
			}
			// A re-issue means the previous attempt failed: that
			// failure must be on the previous peer's record.
			if n := len(r.offers); n > 0 {
				prev := r.offers[n-1]
				var failed *event
				for _, q := range s.failRec[prev.addr] {
					// The first record after the previous issue
					// is this request's own failure, or (peers
					// sharing an address) an earlier one.
					if q.seq > prev.seq && q.seq < e.seq && failed == nil {
						failed = q
					}
				}
				if failed != nil && !b.hasVerdict && failed.at-b.submitAt >= b.hard && !s.stopCalled {
					// That failure was processed past the
					// hard deadline of a live batch.
					s.mustEnd = append(s.mustEnd, b)
				}
				if failed == nil {
					rc.Failf("failure-not-recorded", s.facts(),
						"request %d was re-issued to %s after peer %s failed it, but that failure never reached the peer ranking", r.id, e.addr, prev.addr)
				}
				s.reissues++
				if prev.peer != e.peer {
					rc.Probe("reissued_to_another_peer")
				} else {
					rc.Probe("reissued_to_same_peer")
				}
				if b.hasVerdict {
					rc.Probe("stale_request_reissued_after_verdict")
				}
			}
			if r.finished {
				rc.Probe("answered_request_offered_again")
			}
			r.offers = append(r.offers, e)
			if b.cap >= 0 {
				lim := b.cap
				if lim < 1 {
					lim = 1
				}
				if len(r.offers) > lim {
					rc.Failf("retry-cap-exceeded", s.factsWith("cap", fmt.Sprint(b.cap)),
						"request %d of batch %d [%s] was issued %d times; its retry cap allows %d", r.id, b.id, b.desc, len(r.offers), lim)
				}
			}
		case evHandle:
			r, b := e.req, e.req.batch
			rc.Logf("  [%v] handler of request %d ran on %s: kind %d finished=%v", e.at, r.id, e.addr, e.resp, e.fin)
			switch {
			case e.resp == -1:
				rc.Probe("irrelevant_message_seen_by_handler")
			case e.resp == kProgress:
				rc.Probe("partial_progress")
			case e.resp == kJunk:
				rc.Probe("no_progress_response")
			}
			if e.fin {
				r.finished = true
				if r == s.pairStale && !b.hasVerdict {
					// The dispatcher was busy when this answer came
					// in and ends the batch (hard deadline) before
					// it takes this result: nothing to record.
					rc.Probe("answer_parked_while_batch_timed_out")
				} else if !b.hasVerdict {
					// The batch was alive when this answer came
					// in, so it counts on the peer's record.
					s.expRewards[e.addr]++
					s.pendingReward[e.addr] = b
					if e.at-b.submitAt >= b.hard && !s.stopCalled {
						s.mustEnd = append(s.mustEnd, b)
					}
				} else {
					rc.Probe("stale_request_answered_after_verdict")
				}
			}
		case evOrder:
			rc.Logf("  [%v] free peers ranked %v scores %v", e.at, e.list, e.score)
			if !e.perm {
				rc.Failf("rank-order-corrupt", s.facts(), "ranking returned %v, not a permutation of its input", e.list)
			}
			for _, a := range e.list {
				s.lastOrder[a] = e
			}
		case evReward:
			rc.Logf("  [%v] reward %s", e.at, e.addr)
			s.rewards[e.addr]++
			if pb := s.pendingReward[e.addr]; pb != nil {
				pb.lastArmAt = e.at
				delete(s.pendingReward, e.addr)
			}
		case evPunish:
			rc.Logf("  [%v] punish %s", e.at, e.addr)
			s.failRec[e.addr] = append(s.failRec[e.addr], e)
		case evReset:
			rc.Logf("  [%v] reset rank %s", e.at, e.addr)
			s.failRec[e.addr] = append(s.failRec[e.addr], e)
		case evMaxTries:
			rc.Probe("on_max_tries_called")
		}
	}
	// A success that arrived while its batch was alive is exactly what
	// improves a peer's record.
	for _, p := range s.peers {
		a := p.addr
		if s.rewards[a] > s.expRewards[a] {
			rc.Failf("reward-without-success", s.facts(),
				"peer %s was rewarded %d times but answered only %d requests of live batches", a, s.rewards[a], s.expRewards[a])
		}
	}
}

// checkSuccessesRecorded is evaluated once the dispatcher has proven to be
// responsive (end of the final phase): every answer that arrived while its
// batch was alive must have improved the answering peer's record.
func (s *sim) checkSuccessesRecorded() {
	for _, p := range s.peers {
		a := p.addr
		if s.rewards[a] < s.expRewards[a] {
			s.rc.Failf("success-not-recorded", s.facts(),
				"peer %s answered %d requests of live batches but was rewarded only %d times", a, s.expRewards[a], s.rewards[a])
		}
	}
}

// finalPhase: from now on every connected peer answers whatever it is asked at
// once (a fresh peer is connected if none is left). Then every batch must
// reach its one result, a fresh single-request batch must succeed, and Stop
// must return.
func (s *sim) finalPhase() {
	rc := s.rc
	s.finalRan = true
	rc.Logf("final phase at t=%v: all peers answer at once", s.now())
	deaf := map[*simPeer]bool{}
	answerHolders := func() bool {
		var h []*simPeer
		s.mu.Lock()
		for _, p := range s.peers {
			if !p.disconnected && p.cur != nil && !p.curFinalSent && !deaf[p] {
				h = append(h, p)
			}
		}
		s.mu.Unlock()
		for _, p := range h {
			s.mu.Lock()
			r, skip := p.cur, p.curFinalSent
			s.mu.Unlock()
			if skip {
				continue
			}
			took := s.deliver(p, respFor(r, kFinal))
			if !took {
				// Give a worker that is between two selects the
				// time to get there before calling it deaf.
				time.Sleep(200 * time.Microsecond)
				synctest.Wait()
				s.flushSends()
				took = s.deliver(p, respFor(r, kFinal))
			}
			if took {
				s.mu.Lock()
				p.curFinalSent = true
				s.mu.Unlock()
				rc.Logf("peer %s#%d sends final answer to request %d", p.addr, p.id, r.id)
			} else {
				deaf[p] = true
				rc.Logf("peer %s#%d: worker does not take messages", p.addr, p.id)
				rc.Probe("final_phase_worker_not_listening")
			}
			s.settle("final-answer")
		}
		return len(h) > 0
	}
	ensurePeer := func() {
		if len(s.connected()) == 0 {
			p := s.newPeer(fmt.Sprintf("10.0.1.%d:8333", s.nextAddr))
			s.nextAddr++
			rc.Logf("connect fresh peer %s#%d", p.addr, p.id)
			s.announce(p, 0)
			s.settle("final-connect")
			rc.Probe("final_phase_fresh_peer")
		}
	}
	idleRounds := 0
	for i := 0; i < 6*len(s.reqs)+30 && len(s.liveBatches()) > 0 && idleRounds < 3; i++ {
		ensurePeer()
		if answerHolders() {
			idleRounds = 0
			continue
		}
		idleRounds++
		time.Sleep(33 * time.Second)
		s.settle("final-sleep")
	}
	if live := s.liveBatches(); len(live) > 0 {
		b := live[0]
		rc.Failf("no-verdict", s.facts(),
			"batch %d [%s] has no result although every connected peer answers at once and 99 simulated seconds passed: the dispatcher stopped re-issuing its requests (%s)",
			b.id, b.desc, s.stuckSummary())
	}
	// A fresh batch after everything that finished, was cancelled or timed out.
	ensurePeer()
	fb := s.submit(1, true)
	s.settle("fresh-submit")
	for i := 0; i < 8 && !fb.hasVerdict; i++ {
		if !answerHolders() {
			time.Sleep(33 * time.Second)
			s.settle("fresh-sleep")
		}
	}
	if !fb.hasVerdict {
		rc.Failf("later-batch-blocked", s.facts(),
			"a fresh single-request batch got no result from responsive peers after earlier batches had finished (%s)", s.stuckSummary())
	}
	if fb.verdicts[0] != nil {
		rc.Failf("later-batch-failed", s.factsWith("err", errName(fb.verdicts[0])),
			"a fresh single-request batch answered at once by a responsive peer failed with %q", fb.verdicts[0])
	}
	rc.Probe("fresh_batch_succeeded")

	// Every connected peer is still usable. First let everything that is
	// still at a peer or queued (left-overs of ended batches) run out: the
	// peers answer whatever they hold, and 70 simulated seconds (more than
	// the longest request timeout) pass without anything being handed out.
	quietRounds := 0
	for i := 0; i < 6*len(s.reqs)+30 && quietRounds < 1; i++ {
		if answerHolders() {
			continue
		}
		before := s.offersTotal
		time.Sleep(70 * time.Second)
		s.settle("spread-wait")
		if s.offersTotal == before {
			quietRounds++
		}
	}
	// Now a batch with one request per connected peer: the dispatcher gives
	// a peer one request at a time, so no request may stay queued while a
	// connected peer that holds nothing was handed nothing.
	// Justification: the property says unanswered requests are (re-)issued
	// to an available peer and that finished, cancelled or timed-out batches
	// never block later ones; a connected peer that has answered or failed
	// everything it was given is available, and if it were the only peer the
	// waiting request's batch would get no result.
	conn := s.connected()
	offersBefore := map[*simPeer]int{}
	s.mu.Lock()
	for _, p := range conn {
		offersBefore[p] = p.nOffers
	}
	s.mu.Unlock()
	sb := s.submit(len(conn), true)
	s.settle("spread-submit")
	waiting := 0
	for _, r := range sb.reqs {
		if len(r.offers) == 0 {
			waiting++
		}
	}
	if waiting > 0 && !sb.hasVerdict {
		for _, p := range conn {
			s.mu.Lock()
			n, lr, lb, ld := p.nOffers, lastReqID(p), lastBatchID(p), lastBatchDesc(p)
			s.mu.Unlock()
			if n == offersBefore[p] {
				rc.Failf("available-peer-unused", s.facts(),
					"%d of %d requests of a fresh batch stay queued although connected peer %s#%d holds no request and was handed none (it was given %d requests earlier, the last one was request %d of batch %d [%s]): the dispatcher no longer uses this peer (%s)",
					waiting, len(sb.reqs), p.addr, p.id, n, lr, lb, ld, s.stuckSummary())
			}
		}
	}
	if len(conn) > 1 {
		rc.Probe("spread_batch_over_several_peers")
	}
	for i := 0; i < 8+2*len(conn) && !sb.hasVerdict; i++ {
		if !answerHolders() {
			time.Sleep(33 * time.Second)
			s.settle("spread-sleep")
		}
	}
	if !sb.hasVerdict {
		rc.Failf("later-batch-blocked", s.facts(),
			"a fresh batch with one request per connected peer got no result from responsive peers after earlier batches had finished (%s)", s.stuckSummary())
	}
	if sb.verdicts[0] != nil {
		rc.Failf("later-batch-failed", s.factsWith("err", errName(sb.verdicts[0])),
			"a fresh batch with one request per connected peer, answered at once by responsive peers, failed with %q", sb.verdicts[0])
	}
	s.checkSuccessesRecorded()
	s.stop()
}

func lastReqID(p *simPeer) int {
	if p.cur == nil {
		return -1
	}
	return p.cur.id
}

func lastBatchID(p *simPeer) int {
	if p.cur == nil {
		return -1
	}
	return p.cur.batch.id
}

func lastBatchDesc(p *simPeer) string {
	if p.cur == nil {
		return ""
	}
	return p.cur.batch.desc
}

// justify decides whether an error verdict is one of the outcomes the
// property allows for this batch at this moment.
func (s *sim) justify(b *simBatch, err error, now time.Duration) (bool, []string) {
	retry := false
	if b.cap >= 0 {
		lim := b.cap
		if lim < 1 {
			lim = 1
		}
		for _, r := range b.reqs {
			if len(r.offers) >= lim {
				retry = true
			}
		}
	}
	hard := b.hard > 0 && now-b.submitAt >= b.hard
	idle := b.prog > 0 && now-b.lastArmAt >= b.prog
	var why []string
	switch err {
	case query.ErrQueryTimeout:
		if retry {
			why = append(why, "retry")
		}
		if hard {
			why = append(why, "hard")
		}
		if idle {
			why = append(why, "idle")
		}
	case query.ErrPeerDisconnected:
		discSeen := false
		for _, r := range b.reqs {
			for _, o := range r.offers {
				if o.peer.disconnected {
					discSeen = true
				}
			}
		}
		if retry && discSeen {
			why = append(why, "retry")
		}
	case query.ErrJobCanceled:
		if b.cancel != nil && s.cancelled[b.cancel] {
			why = append(why, "cancel")
		}
	case query.ErrWorkManagerShuttingDown:
		if s.stopCalled {
			why = append(why, "shutdown")
		}
	}
	return len(why) > 0, why
}

// pollVerdicts drains every batch channel without blocking.
func (s *sim) pollVerdicts() {
	rc := s.rc
	now := s.now()
	for _, b := range s.batches {
		if !b.returned {
			continue
		}
		for {
			var err error
			got := false
			select {
			case err = <-b.ch:
				got = true
			default:
			}
			if !got {
				break
			}
			b.verdicts = append(b.verdicts, err)
			rc.Logf("  [%v] batch %d verdict #%d: %s", now, b.id, len(b.verdicts), errName(err))
			if len(b.verdicts) > 1 {
				rc.Failf("two-verdicts", s.facts(),
					"batch %d [%s] produced a second result %s after %s", b.id, b.desc, errName(err), errName(b.verdicts[0]))
			}
			b.hasVerdict, b.verdictAt = true, now
			if err == nil {
				for _, r := range b.reqs {
					if !r.finished {
						rc.Failf("success-with-unanswered", s.facts(),
							"batch %d [%s] reported success but the handler of request %d never returned Finished (issued %d times)",
							b.id, b.desc, r.id, len(r.offers))
					}
				}
				rc.Probe("verdict_success")
				if now-b.submitAt >= b.hard {
					rc.Probe("success_after_hard_deadline")
				}
				continue
			}
			ok, why := s.justify(b, err, now)
			if !ok {
				rc.Failf("unjustified-error", s.factsWith("err", errName(err)),
					"batch %d [%s] failed with %q at t=%v (submitted %v) although no retry limit, timeout, cancellation or shutdown applies",
					b.id, b.desc, err, now, b.submitAt)
			}
			name := "verdict_" + errName(err)
			if len(why) == 1 {
				name += "_only_" + why[0]
			}
			rc.Probe(name)
			if b.afterSt {
				rc.Probe("query_after_stop_refused")
			}
		}
	}
	if n := len(s.liveBatches()); n > s.maxLive {
		s.maxLive = n
	}
}

func (s *sim) settle(what string) {
	synctest.Wait()
	// Every step takes a little simulated time of its own (and lets the
	// peers' send delays run out), so that no two steps, and no two
	// timers started by different steps, share an instant.
	s.quanta++
	time.Sleep(100*time.Microsecond + time.Duration(s.quanta%997)*13)
	synctest.Wait()
	s.flushSends()
	s.mu.Lock()
	st := s.stalling
	s.mu.Unlock()
	if st {
		// The dispatcher is in its tape-decided stall: let that time pass.
		s.rc.Probe(s.stallProbe)
		time.Sleep(s.stallD)
		synctest.Wait()
		s.mu.Lock()
		st = s.stalling
		s.mu.Unlock()
		if st {
			s.rc.Infra("dispatcher stall did not end")
		}
		s.flushSends()
	}
	s.mu.Lock()
	s.stallNext = 0
	s.mu.Unlock()
	s.processEvents()
	s.pairStale = nil
	s.pollVerdicts()
	s.checkTimers()
	s.rc.Res.Steps++
	nv := 0
	var kinds [5]int
	for _, b := range s.batches {
		if b.hasVerdict {
			nv++
			switch b.verdicts[0] {
			case nil:
				kinds[0]++
			case query.ErrQueryTimeout:
				kinds[1]++
			case query.ErrPeerDisconnected:
				kinds[2]++
			case query.ErrJobCanceled:
				kinds[3]++
			default:
				kinds[4]++
			}
		}
	}
	// Abstract state of the step (bounded): what was done, how many
	// batches are in flight, which kinds of result exist so far, how many
	// peers are connected and how many hold an unanswered request.
	held := 0
	s.mu.Lock()
	for _, p := range s.peers {
		if !p.disconnected && p.cur != nil && !p.curFinalSent {
			held++
		}
	}
	s.mu.Unlock()
	for i := range kinds {
		if kinds[i] > 3 {
			kinds[i] = 3
		}
	}
	live := len(s.liveBatches())
	if live > 4 {
		live = 4
	}
	s.rc.State(fmt.Sprintf("%s|live=%d|v=%v|conn=%d|held=%d", what, live, kinds, len(s.connected()), held))
	// The exact observable history goes into a per-run digest (reported in
	// the sample) used to measure determinism.
	s.digest = sha256.Sum256([]byte(fmt.Sprintf("%x|%s|%d|%d|%v|%d", s.digest, what, s.offersTotal, s.evDone, s.now(), nv)))
}

// finalDigest combines the per-step chain with the per-source event chains.
func (s *sim) finalDigest() string {
	keys := make([]string, 0, len(s.chains))
	for k := range s.chains {
		keys = append(keys, k)
	}
	sort.Strings(keys)
	h := sha256.New()
	h.Write(s.digest[:])
	for _, k := range keys {
		c := s.chains[k]
		h.Write([]byte(k))
		h.Write(c[:])
	}
	return fmt.Sprintf("%x", h.Sum(nil)[:8])
}

// checkTimers holds the two timeout outcomes against the clock. The idle
// timeout is documented to cancel its batch in real time: at quiescence no
// live batch may be past the end of its idle window. The hard timeout is only
// looked at when a result of the batch is processed: a batch that had a result
// processed past its hard deadline must have its verdict.
func (s *sim) checkTimers() {
	rc := s.rc
	must := s.mustEnd
	s.mustEnd = nil
	if s.stopCalled {
		return
	}
	now := s.now()
	for _, b := range must {
		if !b.hasVerdict {
			rc.Failf("hard-deadline-ignored", s.facts(),
				"batch %d [%s] (submitted %v) is still running at t=%v although one of its requests was answered or failed after its hard timeout had passed", b.id, b.desc, b.submitAt, now)
		}
		rc.Probe("result_processed_past_hard_deadline")
	}
	for _, b := range s.liveBatches() {
		if b.prog > 0 && now-b.lastArmAt >= b.prog {
			rc.Failf("idle-timeout-missed", s.facts(),
				"batch %d [%s] is still running at t=%v although no request of it succeeded since %v (idle timeout %v)", b.id, b.desc, now, b.lastArmAt, b.prog)
		}
	}
}

// stop calls Stop and demands that it returns.
func (s *sim) stop() {
	if s.stopCalled {
		return
	}
	if len(s.liveBatches()) > 0 {
		s.rc.Probe("stop_with_live_batches")
	}
	s.stopCalled = true
	done := make(chan struct{})
	go func() { s.mgr.Stop(); close(done) }()
	synctest.Wait()
	select {
	case <-done:
	default:
		time.Sleep(2 * time.Minute)
		synctest.Wait()
		select {
		case <-done:
		default:
			s.rc.Failf("stop-blocked", s.facts(), "WorkManager.Stop did not return within two simulated minutes (%s)", s.stuckSummary())
		}
	}
	s.stopDone = true
}

func runC12(rc *core.RunCtx) {
	tp := rc.Tape
	s := &sim{rc: rc, tp: tp, start: time.Now(),
		score: map[string]int{}, tie: map[string]int{}, byAddr: map[string]*simPeer{},
		lastOrder: map[string]*event{}, rewards: map[string]int{}, expRewards: map[string]int{},
		failRec: map[string][]*event{}, pendingReward: map[string]*simBatch{}, chains: map[string][32]byte{}, cancelled: map[chan struct{}]bool{},
		peerCh: make(chan query.Peer, 256)}
	cfg := &query.Config{
		ConnectedPeers: func() (<-chan query.Peer, func(), error) {
			return s.peerCh, func() {}, nil
		},
		NewWorker: query.NewWorker,
		Ranking:   &rankSpy{real: query.NewPeerRanking(), s: s},
	}
	if tp.Chance(1, 2) {
		cfg.OnMaxTries = func(p query.Peer) {
			s.mu.Lock()
			defer s.mu.Unlock()
			s.add(&event{kind: evMaxTries, addr: p.Addr()})
		}
	}
	s.mgr = query.NewWorkManager(cfg)
	if err := s.mgr.Start(); err != nil {
		rc.Infra("Start: %v", err)
	}
	defer func() {
		// Leave the bubble with nothing blocked, whatever happened.
		if !s.stopCalled {
			s.stopCalled = true
			go s.mgr.Stop()
		}
		for _, p := range s.peers {
			if !p.disconnected {
				s.disconnect(p)
			}
		}
		for i := 0; i < 3; i++ {
			synctest.Wait()
			for _, b := range s.batches {
				if b.returned {
					select {
					case <-b.ch:
					default:
					}
				}
			}
		}
	}()

	// Per-run shape (swarm): sizes, which operations and faults occur.
	steps := tp.Range(10, 60)
	if rc.Tier == "thorough" {
		steps = tp.Range(10, 150)
	}
	maxReq := 1 + tp.Intn(5)
	if rc.Tier == "thorough" {
		maxReq = 1 + tp.Intn(8)
	}
	maxPeers := 1 + tp.Intn(5)
	wProgress := 6 * tp.Intn(3)
	wJunk := 5 * tp.Intn(3)
	wCancel := 4 * tp.Intn(3)
	wDisc := 6 * tp.Intn(3)
	wReplace := 4 * tp.Intn(3)
	wStop := tp.Intn(2)
	wSleep := 9 * (1 + tp.Intn(3))
	wStall := tp.Intn(3)
	reuseAddr := tp.Intn(3)
	wPair := 7 * tp.Intn(3)
	s.faulty = wDisc > 0 || wReplace > 0 || reuseAddr > 0
	type act struct {
		name string
		w    int
	}
	acts := []act{{"answer", 30}, {"submit", 14}, {"connect", 10}, {"sleep", wSleep}, {"progress", wProgress},
		{"junk", wJunk}, {"cancel", wCancel}, {"disconnect", wDisc}, {"replace", wReplace}, {"stop", wStop}, {"pair", wPair}}
	rc.Logf("run: steps=%d maxReq=%d maxPeers=%d weights=%v reuseAddr=%d", steps, maxReq, maxPeers, acts, reuseAddr)

	// holders returns connected peers that were given a request which has
	// not been finally answered by the simulator yet.
	holders := func() []*simPeer {
		var out []*simPeer
		s.mu.Lock()
		defer s.mu.Unlock()
		for _, p := range s.peers {
			if !p.disconnected && p.cur != nil && !p.curFinalSent {
				out = append(out, p)
			}
		}
		return out
	}
	pickTarget := func() *simPeer {
		h := holders()
		if len(h) == 0 {
			h = s.connected()
			if len(h) == 0 {
				return nil
			}
			rc.Probe("message_to_peer_without_request")
		}
		return h[tp.Intn(len(h))]
	}
	send := func(p *simPeer, m wire.Message, what string) {
		ok := s.deliver(p, m)
		rc.Logf("peer %s#%d sends %s (taken=%v)", p.addr, p.id, what, ok)
		if !ok {
			rc.Probe("message_not_taken")
		}
	}

	for step := 0; step < steps && !s.stopCalled; step++ {
		// Messages from peers are mostly worth sending while some peer
		// holds a request; batches are mostly worth submitting while
		// few are in flight.
		cur := append([]act(nil), acts...)
		if len(holders()) == 0 {
			cur[0].w, cur[4].w, cur[5].w = 3, cur[4].w/6, cur[5].w/6
		}
		if len(s.liveBatches()) == 0 {
			cur[1].w *= 2
		}
		total := 0
		for _, a := range cur {
			total += a.w
		}
		x := tp.Intn(total)
		name := ""
		for _, a := range cur {
			if x < a.w {
				name = a.name
				break
			}
			x -= a.w
		}
		switch name {
		case "answer":
			p := pickTarget()
			if p == nil {
				name = "noop"
				break
			}
			s.mu.Lock()
			r := p.cur
			s.mu.Unlock()
			if r == nil {
				send(p, &wire.MsgVerAck{}, "unsolicited verack")
				break
			}
			kind := kFinal
			if tp.Chance(1, 4) {
				kind = kFinalNoProg
			}
			if wStall > 0 && tp.Chance(wStall, 3) {
				// Stall the dispatcher while it records this
				// success until just past the batch's idle
				// deadline, so the idle timer fires behind a
				// success that is already being processed. Only
				// when nothing else can fire in that window.
				b := r.batch
				d := b.lastArmAt + b.prog - s.now() + time.Millisecond
				if h := holders(); b.prog > 0 && !b.hasVerdict && !r.finished && d > 0 && d < 15*time.Second && len(h) == 1 && h[0] == p {
					s.mu.Lock()
					s.stallNext = d
					s.mu.Unlock()
					s.stallD, s.stallProbe = d, "dispatcher_stalled_across_idle_deadline"
					rc.Logf("dispatcher will stall %v while recording the next success", d)
				}
			}
			s.mu.Lock()
			p.curFinalSent = true
			s.mu.Unlock()
			send(p, respFor(r, kind), fmt.Sprintf("final answer to request %d", r.id))
		case "progress":
			p := pickTarget()
			if p == nil {
				name = "noop"
				break
			}
			s.mu.Lock()
			r := p.cur
			s.mu.Unlock()
			if r == nil {
				send(p, &wire.MsgVerAck{}, "unsolicited verack")
				break
			}
			send(p, respFor(r, kProgress), fmt.Sprintf("partial answer to request %d", r.id))
		case "junk":
			p := pickTarget()
			if p == nil {
				name = "noop"
				break
			}
			s.mu.Lock()
			r := p.cur
			s.mu.Unlock()
			switch v := tp.Intn(3); {
			case r == nil || v == 2:
				send(p, &wire.MsgVerAck{}, "unrelated verack")
			case v == 0:
				send(p, respFor(r, kJunk), fmt.Sprintf("useless response to request %d", r.id))
			default:
				other := s.reqs[tp.Intn(len(s.reqs))]
				if other == r {
					send(p, respFor(r, kJunk), fmt.Sprintf("useless response to request %d", r.id))
				} else {
					send(p, respFor(other, kFinal), fmt.Sprintf("answer to the wrong request %d", other.id))
				}
			}
		case "submit":
			if len(s.liveBatches()) >= 6 {
				name = "noop"
				break
			}
			s.submit(1+tp.Intn(maxReq), false)
		case "connect":
			if len(s.connected()) >= maxPeers {
				name = "noop"
				break
			}
			addr := ""
			if reuseAddr > 0 && tp.Chance(reuseAddr, 4) {
				// An address that was seen before and has no
				// live connection now.
				var old []string
				seen := map[string]bool{}
				for _, p := range s.peers {
					if p.disconnected && !seen[p.addr] && s.byAddr[p.addr].disconnected {
						seen[p.addr] = true
						old = append(old, p.addr)
					}
				}
				if len(old) > 0 {
					addr = old[tp.Intn(len(old))]
					s.addrReused = true
					rc.Probe("reconnect_with_earlier_address")
				}
			}
			if addr == "" {
				addr = fmt.Sprintf("10.0.0.%d:8333", s.nextAddr)
				s.nextAddr++
			}
			p := s.newPeer(addr)
			rc.Logf("connect peer %s#%d", p.addr, p.id)
			s.announce(p, tp.Intn(8))
		case "disconnect":
			c := s.connected()
			if len(c) == 0 {
				name = "noop"
				break
			}
			p := c[tp.Intn(len(c))]
			rc.Logf("disconnect peer %s#%d", p.addr, p.id)
			rc.Fault("disconnect")
			s.mu.Lock()
			if p.cur != nil && !p.curFinalSent {
				rc.Probe("disconnect_while_holding_request")
			}
			s.mu.Unlock()
			s.disconnect(p)
		case "replace":
			// The connection to an address drops and a new
			// connection to the same address is announced before
			// the dispatcher has dealt with the old one.
			c := s.connected()
			if len(c) == 0 {
				name = "noop"
				break
			}
			p := c[tp.Intn(len(c))]
			np := s.newPeer(p.addr)
			s.addrReplaced = true
			s.mu.Lock()
			if p.cur != nil && !p.curFinalSent {
				rc.Probe("replace_while_old_connection_holds_request")
			}
			s.mu.Unlock()
			rc.Fault("replace_same_address")
			if tp.Intn(2) == 0 {
				rc.Logf("peer %s#%d drops, then %s#%d connects (same step)", p.addr, p.id, np.addr, np.id)
				s.disconnect(p)
				s.announce(np, s.tie[p.addr])
			} else {
				rc.Logf("peer %s#%d connects, then %s#%d drops (same step)", np.addr, np.id, p.addr, p.id)
				s.announce(np, s.tie[p.addr])
				s.disconnect(p)
			}
		case "cancel":
			var c []*simBatch
			for _, b := range s.batches {
				if b.cancel != nil && !s.cancelled[b.cancel] {
					c = append(c, b)
				}
			}
			if len(c) == 0 {
				name = "noop"
				break
			}
			b := c[tp.Intn(len(c))]
			rc.Logf("cancel batch %d", b.id)
			if !b.hasVerdict {
				rc.Probe("cancel_live_batch")
				held := false
				s.mu.Lock()
				for _, p := range s.peers {
					if !p.disconnected && p.cur != nil && p.cur.batch == b && !p.curFinalSent {
						held = true
					}
				}
				s.mu.Unlock()
				if !held {
					rc.Probe("cancel_batch_with_nothing_at_a_peer")
				}
			} else {
				rc.Probe("cancel_after_verdict")
			}
			s.cancelled[b.cancel] = true
			close(b.cancel)
		case "pair":
			// Two peers hold different unanswered requests of one
			// live batch. The first answers; while the dispatcher is
			// busy recording that success (tape-decided stall inside
			// the ranking call) the second answers too, so its worker
			// has a finished job and waits for the dispatcher to take
			// the result. Variants: the stall ends just past the
			// batch's hard deadline (the dispatcher then times the
			// batch out and tears it down with that result still
			// waiting), the batch's cancel channel is closed during
			// the stall, or neither. The dispatcher is blocked for the
			// whole step, so the order of the two answers is fixed.
			type pr struct {
				a, b   *simPeer
				ra, rb *simReq
			}
			held := func(p *simPeer) *simReq {
				s.mu.Lock()
				r := p.cur
				s.mu.Unlock()
				if r == nil || r.finished || r.batch.hasVerdict || len(r.offers) == 0 || r.offers[len(r.offers)-1].peer != p {
					return nil
				}
				return r
			}
			var cs []pr
			h := holders()
			for _, pa := range h {
				for _, pb := range h {
					ra, rb := held(pa), held(pb)
					if pa != pb && pa.addr != pb.addr && ra != nil && rb != nil && ra != rb && ra.batch == rb.batch {
						cs = append(cs, pr{pa, pb, ra, rb})
					}
				}
			}
			if len(cs) == 0 {
				name = "noop"
				break
			}
			c := cs[tp.Intn(len(cs))]
			b := c.ra.batch
			now := s.now()
			deadline := b.submitAt + b.hard
			// quiet: between now and the end of a stall of length d no
			// idle timer of a live batch fires and the hard deadline
			// of this batch is not within 0.1 ms of the stall's end.
			// (Otherwise the dispatcher would come back to several
			// ready events at once and Go's select would pick one at
			// random.)
			quiet := func(d time.Duration) bool {
				for _, lb := range s.liveBatches() {
					if lb.prog > 0 && lb.lastArmAt+lb.prog <= now+d+5*time.Millisecond {
						return false
					}
				}
				gap := deadline - (now + d)
				return gap < -100*time.Microsecond || gap > 100*time.Microsecond
			}
			d, variant := time.Millisecond, "plain"
			switch v := tp.Intn(4); {
			case v == 1 || v == 2:
				dd := time.Millisecond
				if deadline > now {
					dd = deadline - now + time.Millisecond
				}
				if dd <= 70*time.Second && quiet(dd) {
					d, variant = dd, "timeout"
				}
			case v == 3:
				if b.cancel != nil && !s.cancelled[b.cancel] {
					variant = "cancel"
				}
			}
			if !quiet(d) {
				name = "noop"
				break
			}
			crossed := now+d > deadline
			s.mu.Lock()
			s.stallNext = d
			c.a.curFinalSent = true
			s.mu.Unlock()
			s.stallD, s.stallProbe = d, "second_answer_while_dispatcher_busy"
			rc.Logf("pair (%s): dispatcher will stall %v while recording the first success; batch %d deadline %v", variant, d, b.id, deadline)
			send(c.a, respFor(c.ra, kFinal), fmt.Sprintf("final answer to request %d", c.ra.id))
			synctest.Wait()
			s.mu.Lock()
			st := s.stalling
			if !st {
				s.stallNext = 0
			}
			s.mu.Unlock()
			if !st {
				rc.Probe("pair_first_answer_not_being_recorded")
				break
			}
			if crossed {
				// The first success is processed when the stall ends,
				// past the hard deadline: the batch must end in this
				// step, and it ends before the dispatcher takes the
				// second result.
				s.pairStale = c.rb
				s.mustEnd = append(s.mustEnd, b)
			}
			kind := kFinal
			if tp.Chance(1, 4) {
				kind = kFinalNoProg
			}
			s.mu.Lock()
			c.b.curFinalSent = true
			s.mu.Unlock()
			send(c.b, respFor(c.rb, kind), fmt.Sprintf("final answer to request %d (dispatcher busy)", c.rb.id))
			synctest.Wait()
			if variant == "cancel" {
				rc.Logf("cancel batch %d (dispatcher busy)", b.id)
				s.cancelled[b.cancel] = true
				close(b.cancel)
				synctest.Wait()
			}
			if crossed {
				variant = "timeout"
			}
			rc.Probe("pair_" + variant + "_while_result_waits")
		case "sleep":
			d := sleepChoices[tp.Intn(len(sleepChoices))]
			rc.Logf("sleep %v (t=%v)", d, s.now())
			if len(s.liveBatches()) > 0 && len(s.connected()) == 0 {
				rc.Probe("time_passes_with_batches_and_no_peers")
			}
			if len(holders()) > 0 && d >= 2*time.Second {
				rc.Fault("silence_past_request_timeout")
			}
			time.Sleep(d)
		case "stop":
			if step < steps/2 {
				name = "noop"
				break
			}
			rc.Logf("stop the work manager")
			s.stop()
		}
		s.settle(name)
	}

	if s.stopCalled {
		rc.Probe("stopped_mid_run")
		// A batch handed in after Stop must be refused with one error.
		if tp.Chance(1, 2) {
			s.submit(1, true)
			s.settle("submit-after-stop")
		}
	} else {
		s.finalPhase()
	}

	// After shutdown every batch has exactly one result.
	for i := 0; i < 2; i++ {
		s.settle("drain")
	}
	for _, b := range s.batches {
		if !b.hasVerdict {
			rc.Failf("no-verdict-after-stop", s.facts(),
				"batch %d [%s] never produced a result, not even when the work manager was stopped", b.id, b.desc)
		}
	}
	s.mu.Lock()
	for _, p := range s.peers {
		if p.subscribed != 0 {
			rc.Probe("subscription_left_open")
		}
	}
	s.mu.Unlock()

	nVerd := 0
	for _, b := range s.batches {
		if len(b.verdicts) > 0 && b.verdicts[0] != query.ErrWorkManagerShuttingDown {
			nVerd++
		}
	}
	if s.maxLive >= 3 {
		rc.Probe("three_or_more_batches_in_flight")
	}
	rc.Res.Nontrivial = len(s.batches) >= 2 && s.offersTotal >= 1 && nVerd >= 1
	rc.Res.Sample = map[string]any{"batches": len(s.batches), "requests": len(s.reqs), "peers": len(s.peers),
		"offers": s.offersTotal, "reissues": s.reissues, "max_in_flight": s.maxLive, "stopped_mid_run": !s.finalRan,
		"sim_seconds": int(s.now() / time.Second), "digest": s.finalDigest()}
}
