// Package c12 is the engine for property C12: the real query work dispatcher
// (query.NewWorkManager) and real query workers inside a testing/synctest
// bubble, driven by the decision tape against simulator-owned peers.
package c12

import (
	"fmt"
	"strings"
	"testing"
	"testing/synctest"
	"time"

	"verif/sim/core"
)

// bubble runs body inside a synctest bubble (fake clock, quiescence
// detection). Oracle failures unwind through core.Guard inside the bubble. If
// the bubble cannot be left because goroutines stay durably blocked after
// clean-up, that is recorded as an infrastructure error unless the run
// already has a verdict. (Same contract as e3.Bubble; copied so that this
// engine binary does not depend on another engine's package.)
func bubble(t *testing.T, rc *core.RunCtx, body func()) {
	defer func() {
		if r := recover(); r != nil {
			msg := fmt.Sprint(r)
			if strings.Contains(msg, "deadlock") || strings.Contains(msg, "blocked goroutines remain") {
				rc.Probe("bubble_left_with_blocked_goroutines")
				if rc.Res.Violation == nil && rc.Res.InfraError == "" {
					rc.Res.InfraError = "bubble could not be left cleanly: " + msg
				}
				return
			}
			if rc.Res.InfraError == "" {
				rc.Res.InfraError = "panic outside bubble body: " + msg
			}
		}
	}()
	synctest.Test(t, func(t *testing.T) {
		start := time.Now()
		core.Guard(rc, body)
		rc.Res.SimNs += int64(time.Since(start))
	})
}
