// Package c10 decides property C10 (GetUtxo reports the true fate of an
// outpoint, exactly once): the REAL neutrino.UtxoScanner + batchSpendReporter
// run inside a testing/synctest bubble; the four UtxoScannerConfig functions
// are simulator-owned park points answering from a model chain.
package c10

import (
	"crypto/sha256"
	"encoding/binary"
	"fmt"

	"github.com/btcsuite/btcd/btcutil/v2"
	"github.com/btcsuite/btcd/btcutil/v2/gcs"
	"github.com/btcsuite/btcd/btcutil/v2/gcs/builder"
	"github.com/btcsuite/btcd/chainhash/v2"
	"github.com/btcsuite/btcd/wire/v2"

	"verif/sim/core"
)

// The UtxoScanner never validates headers, proof of work or scripts: it only
// asks for the tip, the hash at a height, "does the filter of this block match
// my watch list" and the block itself. The model chain is therefore a plain
// list of blocks whose transactions the run draws from the tape (so that
// create-and-spend in one block, several outputs of one transaction, the same
// script on many outputs and - rarely - a second spend of an outpoint all
// occur), with real BIP158 basic filters built over them.

type utxo struct {
	op     wire.OutPoint
	script []byte
}

type outInfo struct {
	height int
	txIdx  int
	out    *wire.TxOut
}

type spendInfo struct {
	height int
	txIdx  int
	inIdx  int
	tx     *wire.MsgTx
}

type txInfo struct {
	hash   chainhash.Hash
	height int
	nOut   int
}

type mblock struct {
	height int
	msg    *wire.MsgBlock
	blk    *btcutil.Block
	hash   chainhash.Hash
	filter *gcs.Filter
	key    [gcs.KeySize]byte
}

type model struct {
	blocks  []*mblock
	byHash  map[chainhash.Hash]*mblock
	created map[wire.OutPoint]outInfo
	// spends lists, in chain order, every input that spends the outpoint.
	spends map[wire.OutPoint][]spendInfo
	txs    []txInfo
	keys   [][]byte

	sameBlockSpends int
	doubleSpends    int
}

func keyScript(i int) []byte {
	h := sha256.Sum256([]byte(fmt.Sprintf("c10-key-%d", i)))
	return append([]byte{0x00, 0x14}, h[:20]...)
}

const nKeys = 5

// buildModel draws a chain of hmax+1 blocks (heights 0..hmax) from the tape.
func buildModel(tp *core.Tape, hmax int) *model {
	m := &model{byHash: map[chainhash.Hash]*mblock{}, created: map[wire.OutPoint]outInfo{},
		spends: map[wire.OutPoint][]spendInfo{}}
	for i := 0; i < nKeys; i++ {
		m.keys = append(m.keys, keyScript(i))
	}
	var pool, spent []utxo
	var prev chainhash.Hash
	counter := uint32(0)
	for h := 0; h <= hmax; h++ {
		var txs []*wire.MsgTx
		var prevScripts [][]byte
		createdHere := map[wire.OutPoint]bool{}

		register := func(tx *wire.MsgTx, txIdx int) {
			hash := tx.TxHash()
			m.txs = append(m.txs, txInfo{hash: hash, height: h, nOut: len(tx.TxOut)})
			for i, o := range tx.TxOut {
				op := wire.OutPoint{Hash: hash, Index: uint32(i)}
				m.created[op] = outInfo{height: h, txIdx: txIdx, out: o}
				createdHere[op] = true
				pool = append(pool, utxo{op: op, script: o.PkScript})
			}
		}

		// Coinbase: unique by the height in its signature script.
		cb := wire.NewMsgTx(2)
		var sig [9]byte
		sig[0] = 8
		binary.LittleEndian.PutUint64(sig[1:], uint64(h)+0x0c10<<32)
		cb.AddTxIn(&wire.TxIn{PreviousOutPoint: wire.OutPoint{Index: 0xffffffff},
			SignatureScript: sig[:], Sequence: 0xffffffff})
		ncb := 1 + tp.Intn(2)
		for i := 0; i < ncb; i++ {
			counter++
			cb.AddTxOut(&wire.TxOut{Value: int64(5000 + counter), PkScript: m.keys[tp.Intn(nKeys)]})
		}
		txs = append(txs, cb)
		register(cb, 0)

		ntx := tp.Intn(4)
		for t := 0; t < ntx; t++ {
			tx := wire.NewMsgTx(2)
			counter++
			tx.LockTime = counter
			nin := 1 + tp.Intn(2)
			used := map[wire.OutPoint]bool{}
			var ins []utxo
			for i := 0; i < nin; i++ {
				var u utxo
				if len(spent) > 0 && tp.Chance(1, 10) {
					// A second spend of an already spent outpoint
					// (what makes "earliest" observable).
					u = spent[tp.Intn(len(spent))]
					if used[u.op] {
						continue
					}
					m.doubleSpends++
				} else if len(pool) > 0 {
					// 0 = the newest output: often one created
					// earlier in this very block.
					w := len(pool)
					if w > 6 {
						w = 6
					}
					k := len(pool) - 1 - tp.Intn(w)
					u = pool[k]
					pool = append(pool[:k:k], pool[k+1:]...)
					spent = append(spent, u)
				} else {
					continue
				}
				used[u.op] = true
				ins = append(ins, u)
			}
			if len(ins) == 0 {
				continue
			}
			for _, u := range ins {
				tx.AddTxIn(&wire.TxIn{PreviousOutPoint: u.op, Sequence: 0xffffffff,
					Witness: wire.TxWitness{make([]byte, 8)}})
			}
			nout := 1 + tp.Intn(3)
			for i := 0; i < nout; i++ {
				counter++
				tx.AddTxOut(&wire.TxOut{Value: int64(1000 + counter), PkScript: m.keys[tp.Intn(nKeys)]})
			}
			txIdx := len(txs)
			for i, u := range ins {
				m.spends[u.op] = append(m.spends[u.op], spendInfo{height: h, txIdx: txIdx, inIdx: i, tx: tx})
				prevScripts = append(prevScripts, u.script)
				if createdHere[u.op] {
					m.sameBlockSpends++
				}
			}
			txs = append(txs, tx)
			register(tx, txIdx)
		}

		msg := &wire.MsgBlock{Transactions: txs}
		var mr chainhash.Hash
		hh := sha256.New()
		for _, tx := range txs {
			th := tx.TxHash()
			hh.Write(th[:])
		}
		copy(mr[:], hh.Sum(nil))
		msg.Header = wire.BlockHeader{Version: 0x20000000, PrevBlock: prev, MerkleRoot: mr,
			Bits: 0x207fffff, Nonce: uint32(h)}
		b := &mblock{height: h, msg: msg, hash: msg.Header.BlockHash()}
		b.blk = btcutil.NewBlock(msg)
		f, err := builder.BuildBasicFilter(msg, prevScripts)
		if err != nil {
			panic(err)
		}
		b.filter = f
		b.key = builder.DeriveKey(&b.hash)
		m.blocks = append(m.blocks, b)
		m.byHash[b.hash] = b
		prev = b.hash
	}
	return m
}

// earliestSpend is the reference answer: the first input, in chain order, of
// a block at height in [from, upto] that spends op (nil if none).
func (m *model) earliestSpend(op wire.OutPoint, from, upto int) *spendInfo {
	for i := range m.spends[op] {
		s := &m.spends[op][i]
		if s.height >= from && s.height <= upto {
			return s
		}
	}
	return nil
}

// createdAt reports whether the block at height h creates op.
func (m *model) createdAt(op wire.OutPoint, h int) (outInfo, bool) {
	c, ok := m.created[op]
	if !ok || c.height != h {
		return outInfo{}, false
	}
	return c, true
}

// filterMatches evaluates the block's real BIP158 filter the way the client
// does (matchBlockFilter): key derived from the block hash, MatchAny over the
// watch list.
func (b *mblock) filterMatches(watch [][]byte) bool {
	if len(watch) == 0 || b.filter.N() == 0 {
		return false
	}
	ok, err := b.filter.MatchAny(b.key, watch)
	if err != nil {
		panic(err)
	}
	return ok
}
