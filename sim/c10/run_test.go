package c10

import (
	"testing"

	"verif/sim/core"
)

func TestRun(t *testing.T) { core.MainRegistered(t) }
