package c10

import (
	"crypto/sha256"
	"fmt"
	"sync"
	"testing"
	"testing/synctest"
	"time"

	"github.com/btcsuite/btcd/btcutil/v2"
	"github.com/btcsuite/btcd/chainhash/v2"
	"github.com/btcsuite/btcd/wire/v2"
	"github.com/lightninglabs/neutrino"
	"github.com/lightninglabs/neutrino/headerfs"

	"verif/sim/core"
	"verif/sim/e3"
)

func init() { core.Register("C10", RunC10) }

// RunC10 is the engine function for C10.
func RunC10(t *testing.T, rc *core.RunCtx) {
	e3.Bubble(t, rc, func() { runC10(rc) })
}

const (
	kSnap = iota
	kHash
	kFilter
	kBlock
)

var kindName = [...]string{"BestSnapshot", "GetBlockHash", "BlockFilterMatches", "GetBlock"}

// call is one parked config-function call of the scanner goroutine.
type call struct {
	kind   int
	height int64
	hash   chainhash.Hash
	watch  [][]byte
	resp   chan reply
}

type reply struct {
	stamp *headerfs.BlockStamp
	hash  *chainhash.Hash
	match bool
	block *btcutil.Block
	err   error
}

// simReq is one GetUtxo request and what its caller saw.
type simReq struct {
	idx     int
	op      wire.OutPoint
	script  []byte
	birth   int
	what    string // real | oob | never
	dupOf   int    // index of the request whose outpoint this repeats, or -1
	req     *neutrino.GetUtxoRequest
	enqStep int
	// number of faults injected before this request was enqueued
	faultsBefore int

	waiting bool // Result caller started
	done    chan struct{}
	rep     *neutrino.SpendReport
	err     error
	checked bool
	seen    bool
	// context at the quiescent point where the answer was first seen
	ansSnap  int
	ansTip   int
	ansStop  bool
	ansStep  int
	outcome  string
	lazy     bool
	afterEnd bool // enqueued after Stop
}

type sim struct {
	rc *core.RunCtx
	tp *core.Tape
	m  *model

	tip int

	mu      sync.Mutex
	pending *call

	scanner *neutrino.UtxoScanner
	reqs    []*simReq

	// Mirror of the scan loop's phase, derived only from the sequence of
	// released calls (used for probes and for recognising an empty scan).
	inScan      bool
	scanEnd     int
	scanCalls   int // calls other than BestSnapshot released in this scan
	scanHeight  int // height of the last GetBlockHash of this scan
	prevKind    int // kind of the previously released call (-1 none)
	emptyScans  int // consecutive empty scans with nothing else happening
	lastSnap    int // height returned by the last successful BestSnapshot
	released    int
	blocksGiven int

	faultsOn  bool
	injected  []error
	faultAt   []string // kind@height of every injected fault
	stopInit  bool
	stopDone  chan struct{}
	step      int
	neverSeen int
}

func (s *sim) park(c *call) reply {
	c.resp = make(chan reply)
	s.mu.Lock()
	s.pending = c
	s.mu.Unlock()
	return <-c.resp
}

func (s *sim) takePending() *call {
	s.mu.Lock()
	defer s.mu.Unlock()
	return s.pending
}

func (s *sim) config() *neutrino.UtxoScannerConfig {
	return &neutrino.UtxoScannerConfig{
		BestSnapshot: func() (*headerfs.BlockStamp, error) {
			r := s.park(&call{kind: kSnap})
			return r.stamp, r.err
		},
		GetBlockHash: func(height int64) (*chainhash.Hash, error) {
			r := s.park(&call{kind: kHash, height: height})
			return r.hash, r.err
		},
		BlockFilterMatches: func(ro *neutrino.VerifRescanOptions, h *chainhash.Hash) (bool, error) {
			wl := neutrino.VerifWatchList(ro)
			cp := make([][]byte, len(wl))
			copy(cp, wl)
			r := s.park(&call{kind: kFilter, hash: *h, watch: cp})
			return r.match, r.err
		},
		GetBlock: func(h chainhash.Hash, _ ...neutrino.QueryOption) (*btcutil.Block, error) {
			r := s.park(&call{kind: kBlock, hash: h})
			return r.block, r.err
		},
	}
}

func (s *sim) activity() { s.emptyScans = 0 }

// release answers the parked call from the model chain as of now, or with an
// injected failure. It runs on the simulator goroutine at a quiescent point.
func (s *sim) release(c *call, allowFault bool) {
	rc, tp := s.rc, s.tp
	s.mu.Lock()
	s.pending = nil
	s.mu.Unlock()
	s.released++

	fault := ""
	if allowFault && s.faultsOn && tp.Chance(1, 7) {
		fault = "fail"
		if c.kind == kFilter && tp.Chance(1, 2) {
			fault = "false-positive"
		}
	}
	var r reply
	where := ""
	switch c.kind {
	case kSnap:
		where = "snap"
	case kHash:
		where = fmt.Sprintf("hash@%d", c.height)
	default:
		if b := s.m.byHash[c.hash]; b != nil {
			where = fmt.Sprintf("%s@%d", []string{"", "", "filter", "block"}[c.kind], b.height)
		}
	}
	if fault == "fail" {
		e := fmt.Errorf("simulated %s failure #%d", kindName[c.kind], len(s.injected))
		s.injected = append(s.injected, e)
		s.faultAt = append(s.faultAt, where)
		r.err = e
		rc.Fault([]string{"snapshot_fail", "blockhash_fail", "filter_fail", "getblock_fail"}[c.kind])
		rc.Logf("step %d: release %s -> FAIL (%v)", s.step, where, e)
		if c.kind == kBlock && s.prevKind == kHash {
			// Fetched without asking the filter: requests start here.
			rc.Probe("getblock_fail_at_a_start_block")
		}
		s.prevKind = c.kind
		// Any error ends the scan (a failing first BestSnapshot too).
		s.inScan = false
		s.activity()
		c.resp <- r
		return
	}

	switch c.kind {
	case kSnap:
		b := s.m.blocks[s.tip]
		r.stamp = &headerfs.BlockStamp{Height: int32(b.height), Hash: b.hash}
		s.lastSnap = s.tip
		switch {
		case !s.inScan:
			s.inScan, s.scanEnd, s.scanCalls, s.scanHeight = true, s.tip, 0, -1
		case s.scanCalls == 0:
			// Two tip queries with nothing in between: a scan that
			// found nothing to scan has ended (or, equivalently for
			// this mirror, was abandoned and a new one starts).
			s.emptyScans++
			s.scanEnd = s.tip
			rc.Probe("empty_scan")
		case s.tip > s.scanEnd:
			s.scanEnd = s.tip
			rc.Probe("scan_extended_to_blocks_that_arrived_during_it")
		default:
			s.inScan = false // end of the scan
			s.activity()
		}
		rc.Logf("step %d: release snap -> height %d", s.step, s.tip)
	case kHash:
		s.scanCalls++
		s.activity()
		if c.height < 0 || int(c.height) > s.tip {
			// Not on the chain the client can know about.
			r.err = fmt.Errorf("no block at height %d", c.height)
			rc.Probe("hash_asked_above_tip")
			s.inScan = false
		} else {
			h := s.m.blocks[c.height].hash
			r.hash = &h
			if !s.inScan {
				s.inScan, s.scanEnd = true, s.lastSnap
			}
			s.scanHeight = int(c.height)
		}
		rc.Logf("step %d: release %s", s.step, where)
	case kFilter:
		s.scanCalls++
		s.activity()
		b := s.m.byHash[c.hash]
		if b == nil {
			rc.Infra("BlockFilterMatches asked for a hash the simulator never served")
		}
		r.match = b.filterMatches(c.watch)
		if fault == "false-positive" && !r.match {
			r.match = true
			rc.Fault("filter_false_positive")
		}
		if len(c.watch) == 0 {
			rc.Probe("filter_asked_with_empty_watchlist")
		}
		rc.Logf("step %d: release %s watch=%d -> %v", s.step, where, len(c.watch), r.match)
	case kBlock:
		s.scanCalls++
		s.activity()
		b := s.m.byHash[c.hash]
		if b == nil {
			rc.Infra("GetBlock asked for a hash the simulator never served")
		}
		r.block = b.blk
		s.blocksGiven++
		if s.prevKind == kHash {
			rc.Probe("block_fetched_because_requests_start_there")
		} else {
			rc.Probe("block_fetched_because_filter_matched")
		}
		rc.Logf("step %d: release %s", s.step, where)
	}
	s.prevKind = c.kind
	c.resp <- r
}

func (s *sim) startWaiter(r *simReq) {
	if r.waiting {
		return
	}
	r.waiting = true
	r.done = make(chan struct{})
	go func() {
		r.rep, r.err = r.req.Result(nil)
		close(r.done)
	}()
}

func (r *simReq) isDone() bool {
	if !r.waiting {
		return false
	}
	select {
	case <-r.done:
		return true
	default:
		return false
	}
}

// observe records, at a quiescent point, the context of every answer that
// arrived since the last one.
func (s *sim) observe() {
	for _, r := range s.reqs {
		if !r.seen && (r.isDone() || (!r.waiting && neutrino.VerifPendingResults(r.req) > 0)) {
			// The answer exists now (possibly still unread by a late
			// caller): this is the context it was produced in.
			r.seen = true
			r.ansSnap, r.ansTip, r.ansStop, r.ansStep = s.lastSnap, s.tip, s.stopInit, s.step
			s.activity()
		}
		if r.outcome == "" && r.isDone() {
			s.classify(r)
			s.rc.Logf("step %d: request %d (%s birth %d) answered: %s", s.step, r.idx, r.what, r.birth, r.outcome)
		}
	}
}

func (s *sim) classify(r *simReq) {
	switch {
	case r.err != nil:
		r.outcome = "error"
	case r.rep == nil:
		r.outcome = "empty"
	case r.rep.SpendingTx != nil:
		r.outcome = "spend"
	case r.rep.Output != nil:
		r.outcome = "unspent"
	default:
		r.outcome = "malformed"
	}
}

func (s *sim) facts(r *simReq, extra ...string) map[string]string {
	f := map[string]string{"faults": fmt.Sprint(s.faultsOn), "target": r.what}
	for i := 0; i+1 < len(extra); i += 2 {
		f[extra[i]] = extra[i+1]
	}
	return f
}

// hasSiblingWithOtherBirth: another request for the same outpoint with a
// different start height exists (the statement's "duplicate requests").
func (s *sim) otherBirths(r *simReq) bool {
	for _, o := range s.reqs {
		if o != r && o.op == r.op && o.birth != r.birth {
			return true
		}
	}
	return false
}

// check is the oracle for one answered request.
func (s *sim) check(r *simReq) {
	if r.checked {
		return
	}
	r.checked = true
	rc, m := s.rc, s.m
	dup := fmt.Sprint(s.otherBirths(r))
	switch r.outcome {
	case "error":
		if r.rep != nil {
			rc.Failf("error-with-report", s.facts(r), "request %d: both a report and error %v", r.idx, r.err)
		}
		if r.err == neutrino.ErrShuttingDown {
			if !r.ansStop {
				rc.Failf("spurious-error", s.facts(r, "err", "shutdown"),
					"request %d answered ErrShuttingDown although Stop was not called", r.idx)
			}
			rc.Probe("ans_error_shutdown")
			return
		}
		for i, e := range s.injected {
			if e == r.err {
				if i < r.faultsBefore {
					rc.Failf("stale-error", s.facts(r),
						"request %d answered with failure #%d which happened before it was enqueued", r.idx, i)
				}
				rc.Probe("ans_error_after_injected_failure")
				if s.faultAt[i] == fmt.Sprintf("block@%d", r.birth) && r.ansStep >= 0 {
					rc.Probe("ans_error_block_fetch_failed_at_own_start_height")
				}
				return
			}
		}
		if r.birth > r.ansSnap {
			// Start height beyond the chain the scan could see: the
			// scan cannot complete; an error is an allowed answer.
			rc.Probe("ans_error_start_above_tip")
			return
		}
		rc.Failf("spurious-error", s.facts(r, "err", "other"),
			"request %d (%s, birth %d, tip %d) answered with error %q that nothing in the run explains",
			r.idx, r.what, r.birth, r.ansTip, r.err)
	case "spend":
		want := m.earliestSpend(r.op, r.birth, r.ansTip)
		got := r.rep
		if want == nil {
			rc.Failf("phantom-spend", s.facts(r, "dup_other_birth", dup),
				"request %d (%v birth %d): reported spend at height %d input %d, the chain (tip %d) has no spend at or after its start",
				r.idx, r.op, r.birth, got.SpendingTxHeight, got.SpendingInputIndex, r.ansTip)
		}
		if got.SpendingTx.TxHash() != want.tx.TxHash() || int(got.SpendingTxHeight) != want.height ||
			int(got.SpendingInputIndex) != want.inIdx {
			kind := "tx"
			if got.SpendingTx.TxHash() == want.tx.TxHash() {
				kind = "index-or-height"
			}
			rc.Failf("wrong-spend", s.facts(r, "field", kind, "dup_other_birth", dup),
				"request %d (%v birth %d): reported spend tx %v input %d height %d, earliest is tx %v input %d height %d",
				r.idx, r.op, r.birth, got.SpendingTx.TxHash(), got.SpendingInputIndex, got.SpendingTxHeight,
				want.tx.TxHash(), want.inIdx, want.height)
		}
		if int(got.SpendingInputIndex) >= len(got.SpendingTx.TxIn) ||
			got.SpendingTx.TxIn[got.SpendingInputIndex].PreviousOutPoint != r.op {
			rc.Failf("wrong-spend", s.facts(r, "field", "input"), "request %d: reported input does not spend %v", r.idx, r.op)
		}
		rc.Probe("ans_spend")
		if c, ok := m.created[r.op]; ok && c.height == want.height && r.birth == c.height {
			rc.Probe("ans_spend_in_the_creating_block")
		}
		if len(m.spends[r.op]) > 1 {
			rc.Probe("ans_spend_of_outpoint_spent_twice")
			if want != &m.spends[r.op][0] {
				rc.Probe("ans_spend_is_second_spend_because_start_after_first")
			}
		}
	case "unspent", "empty":
		if sp := m.earliestSpend(r.op, r.birth, r.ansSnap); sp != nil {
			rc.Failf("missed-spend", s.facts(r, "got", r.outcome, "dup_other_birth", dup),
				"request %d (%v birth %d) answered %s although the scanned chain (to height %d) spends it at height %d (tx %d input %d)",
				r.idx, r.op, r.birth, r.outcome, r.ansSnap, sp.height, sp.txIdx, sp.inIdx)
		}
		for _, o := range s.reqs {
			if o != r && o.op == r.op && o.birth != r.birth && o.ansStep == r.ansStep &&
				(o.outcome == "unspent" || o.outcome == "empty") && o.outcome != r.outcome {
				// Both were tracked by one batch and still got
				// the answer of their own start height.
				rc.Probe("ans_duplicates_with_other_start_in_one_batch_answered_differently")
				break
			}
		}
		c, created := m.createdAt(r.op, r.birth)
		if r.outcome == "unspent" {
			if !created {
				rc.Failf("wrong-output", s.facts(r, "why", "start-block-does-not-create-it", "dup_other_birth", dup),
					"request %d (%v birth %d, %s) answered with an output although its start block does not create it",
					r.idx, r.op, r.birth, r.what)
			}
			o := r.rep.Output
			if o.Value != c.out.Value || string(o.PkScript) != string(c.out.PkScript) {
				rc.Failf("wrong-output", s.facts(r, "why", "other-output"),
					"request %d (%v): reported output value %d, the outpoint's is %d", r.idx, r.op, o.Value, c.out.Value)
			}
			if int(r.rep.BlockHeight) != r.birth || r.rep.BlockHash == nil || *r.rep.BlockHash != m.blocks[r.birth].hash {
				rc.Failf("wrong-output", s.facts(r, "why", "block"),
					"request %d (%v): output reported in block height %d, created at %d", r.idx, r.op, r.rep.BlockHeight, r.birth)
			}
			rc.Probe("ans_unspent")
			if r.rep.BlockIndex != 0 {
				rc.Probe("ans_unspent_non_coinbase")
			}
			return
		}
		if created && r.birth <= r.ansSnap {
			rc.Failf("output-not-reported", s.facts(r, "dup_other_birth", dup),
				"request %d (%v birth %d) answered with an empty report although its start block creates the output and the scanned chain (to height %d) does not spend it",
				r.idx, r.op, r.birth, r.ansSnap)
		}
		rc.Probe("ans_empty")
		switch {
		case r.birth > r.ansSnap:
			rc.Probe("ans_empty_start_above_tip")
		case r.what == "oob":
			rc.Probe("ans_empty_out_of_range_index")
		case r.what == "never":
			rc.Probe("ans_empty_never_created")
		default:
			rc.Probe("ans_empty_created_elsewhere")
		}
	default:
		rc.Failf("malformed-report", s.facts(r), "request %d: report carries neither a spend nor an output", r.idx)
	}
}

func runC10(rc *core.RunCtx) {
	tp := rc.Tape
	s := &sim{rc: rc, tp: tp, lastSnap: -1, scanHeight: -1, prevKind: -1}

	// Run-level shape (swarm): sizes, enabled fault kinds, stop, lazy callers.
	tip0 := tp.Range(0, 8)
	grow := tp.Intn(5)
	nReq := tp.Range(1, 8)
	s.faultsOn = tp.Chance(1, 2)
	stopOn := tp.Chance(1, 3)
	lazyOn := tp.Chance(1, 3)
	maxSteps := 30 + tp.Intn(120)
	if rc.Tier == "thorough" {
		tip0 = tp.Range(0, 14)
		nReq = tp.Range(1, 14)
		maxSteps = 30 + tp.Intn(300)
	}
	hmax := tip0 + grow
	s.m = buildModel(tp, hmax)
	s.tip = tip0
	if s.m.sameBlockSpends > 0 {
		rc.Probe("chain_has_create_and_spend_in_one_block")
	}
	if s.m.doubleSpends > 0 {
		rc.Probe("chain_spends_an_outpoint_twice")
	}

	s.scanner = neutrino.NewUtxoScanner(s.config())
	if err := s.scanner.Start(); err != nil {
		rc.Infra("Start: %v", err)
	}

	cleaned := false
	cleanup := func() {
		if cleaned {
			return
		}
		cleaned = true
		// Leave the bubble with no goroutine behind, whatever happened.
		if !s.stopInit {
			s.stopInit = true
			s.stopDone = make(chan struct{})
			go func() { s.scanner.Stop(); close(s.stopDone) }()
		}
		for i := 0; i < 400; i++ {
			synctest.Wait()
			if c := s.takePending(); c != nil {
				s.mu.Lock()
				s.pending = nil
				s.mu.Unlock()
				c.resp <- reply{err: fmt.Errorf("simulation over")}
				continue
			}
			select {
			case <-s.stopDone:
				synctest.Wait()
				return
			default:
			}
			time.Sleep(60 * time.Millisecond)
		}
	}
	defer cleanup()

	// pickTx draws a transaction of the model chain: mostly one the client
	// can already know (height <= tip), sometimes one of a future block.
	pickTx := func() txInfo {
		n := 0
		for n < len(s.m.txs) && s.m.txs[n].height <= s.tip {
			n++
		}
		if n == 0 || tp.Chance(1, 6) {
			n = len(s.m.txs)
		}
		return s.m.txs[tp.Intn(n)]
	}

	newRequest := func(after bool) {
		r := &simReq{idx: len(s.reqs), dupOf: -1, enqStep: s.step, faultsBefore: len(s.injected), afterEnd: after}
		kind := tp.Intn(10)
		cheight := -1
		switch {
		case kind >= 8 && len(s.reqs) > 0:
			o := s.reqs[tp.Intn(len(s.reqs))]
			r.op, r.script, r.what, r.dupOf = o.op, o.script, o.what, o.idx
			if c, ok := s.m.created[r.op]; ok {
				cheight = c.height
			}
			if tp.Chance(1, 2) {
				r.birth = o.birth
				cheight = -2
			}
		case kind == 6:
			t := pickTx()
			r.op = wire.OutPoint{Hash: t.hash, Index: uint32(t.nOut + tp.Intn(2))}
			r.script, r.what, cheight = s.m.keys[tp.Intn(nKeys)], "oob", t.height
		case kind == 7:
			h := sha256.Sum256([]byte(fmt.Sprintf("never-%d", len(s.reqs))))
			r.op = wire.OutPoint{Hash: h, Index: uint32(tp.Intn(2))}
			r.script, r.what = s.m.keys[tp.Intn(nKeys)], "never"
			cheight = tp.Intn(hmax + 1)
		default:
			t := pickTx()
			r.op = wire.OutPoint{Hash: t.hash, Index: uint32(tp.Intn(t.nOut))}
			r.script, r.what, cheight = s.m.created[r.op].out.PkScript, "real", t.height
		}
		if cheight != -2 {
			if cheight < 0 {
				cheight = tp.Intn(hmax + 1)
			}
			switch tp.Intn(8) {
			case 0, 1, 2:
				r.birth = cheight
			case 3:
				r.birth = cheight - 1
			case 4:
				r.birth = cheight + 1
			case 5:
				r.birth = s.tip
			case 6:
				if tp.Chance(1, 2) {
					r.birth = s.tip + 1 + tp.Intn(2)
				} else {
					r.birth = tp.Intn(s.tip + 1)
				}
			default:
				r.birth = tp.Intn(hmax + 2)
			}
			if r.birth < 0 {
				r.birth = 0
			}
		}
		// Probes about where this request lands relative to a running scan.
		c := s.takePending()
		switch {
		case s.stopInit:
		case !s.inScan:
			rc.Probe("enq_between_scans")
		default:
			passed := s.scanHeight
			if c != nil && c.kind == kHash {
				passed = int(c.height) - 1
			}
			switch {
			case r.birth <= passed:
				rc.Probe("enq_during_scan_below_its_position(deferred_to_next_batch)")
			case r.birth <= s.scanEnd:
				rc.Probe("enq_during_scan_ahead_of_its_position(joins_it)")
			default:
				rc.Probe("enq_during_scan_beyond_its_end")
			}
		}
		if r.birth > s.tip {
			rc.Probe("enq_start_above_tip")
		}
		if r.dupOf >= 0 {
			if r.birth == s.reqs[r.dupOf].birth {
				rc.Probe("enq_duplicate_same_start")
			} else {
				rc.Probe("enq_duplicate_other_start")
			}
		}
		for _, o := range s.reqs {
			if o.op.Hash == r.op.Hash && o.op.Index != r.op.Index && o.what == "real" && r.what == "real" {
				rc.Probe("enq_sibling_output_of_same_tx")
				break
			}
		}
		req, err := s.scanner.Enqueue(&neutrino.InputWithScript{OutPoint: r.op, PkScript: r.script}, uint32(r.birth), nil)
		rc.Logf("step %d: enqueue #%d %s %v birth %d (tip %d, dupOf %d) -> err %v", s.step, r.idx, r.what, r.op, r.birth, s.tip, r.dupOf, err)
		if err != nil {
			if !s.stopInit {
				rc.Failf("enqueue-refused", nil, "Enqueue failed before Stop: %v", err)
			}
			rc.Probe("enq_refused_after_stop")
			return
		}
		r.req = req
		r.lazy = lazyOn && !s.stopInit && tp.Chance(1, 2)
		s.reqs = append(s.reqs, r)
		if !r.lazy {
			s.startWaiter(r)
		}
		s.activity()
	}

	exactlyOnce := func() {
		// A request whose caller already has its answer must not have
		// been handed a second one.
		for _, r := range s.reqs {
			if r.outcome != "" && !r.ansStop && neutrino.VerifPendingResults(r.req) > 0 {
				rc.Failf("answered-twice", s.facts(r), "request %d (%v birth %d) was delivered a second result after its caller received %s",
					r.idx, r.op, r.birth, r.outcome)
			}
		}
	}

	initiateStop := func() {
		// Every caller is inside Result before the shutdown starts.
		for _, r := range s.reqs {
			s.startWaiter(r)
		}
		synctest.Wait()
		s.observe()
		exactlyOnce()
		s.stopInit = true
		s.stopDone = make(chan struct{})
		if s.inScan {
			rc.Probe("stop_during_scan")
		} else {
			rc.Probe("stop_between_scans")
		}
		rc.Logf("step %d: Stop", s.step)
		go func() { s.scanner.Stop(); close(s.stopDone) }()
	}

	toEnqueue := nReq
	growLeft := grow
	stateOf := func(act string) {
		// The abstract state is read at quiescence only, so that it does
		// not depend on how far the woken goroutines got.
		synctest.Wait()
		s.observe()
		ans := 0
		for _, r := range s.reqs {
			if r.outcome != "" {
				ans++
			}
		}
		p := "-"
		if c := s.takePending(); c != nil {
			p = kindName[c.kind][:4]
		}
		rc.State(fmt.Sprintf("%s|p=%s|scan=%v|reqs=%d|ans=%d|tip=%d", act, p, s.inScan, len(s.reqs), ans, s.tip))
		rc.Res.Steps++
	}

	// ---- main phase: tape-chosen interleaving of everything ----
	for s.step = 0; s.step < maxSteps; s.step++ {
		synctest.Wait()
		s.observe()
		c := s.takePending()
		if c == nil {
			s.inScan = false // the scanner waits for requests
		}
		if s.stopInit {
			break
		}
		if c == nil && toEnqueue == 0 {
			break // idle and nothing more to ask
		}
		act := tp.Intn(16)
		switch {
		case act >= 9 && act <= 11 && toEnqueue > 0:
			toEnqueue--
			newRequest(false)
			stateOf("enq")
		case act >= 12 && act <= 13 && growLeft > 0:
			growLeft--
			s.tip++
			s.activity()
			if s.inScan {
				rc.Probe("block_arrived_during_scan")
			}
			rc.Logf("step %d: new block, tip %d", s.step, s.tip)
			stateOf("grow")
		case act == 14:
			for _, r := range s.reqs {
				if !r.waiting {
					s.startWaiter(r)
					rc.Probe("late_result_caller")
					break
				}
			}
			stateOf("wait")
		case act == 15 && stopOn && s.step > 4:
			initiateStop()
			stateOf("stop")
		default:
			if c != nil {
				s.release(c, true)
				stateOf("rel")
			} else if toEnqueue > 0 {
				toEnqueue--
				newRequest(false)
				stateOf("enq")
			}
		}
	}

	if !s.stopInit {
		// ---- drain: the chain is final; no more faults; run to idle ----
		for _, r := range s.reqs {
			s.startWaiter(r)
		}
		spinning := false
		bound := (hmax+2)*3*(len(s.reqs)+3) + 50
		for i := 0; ; i++ {
			s.step++
			synctest.Wait()
			s.observe()
			c := s.takePending()
				if c == nil {
				break // scanner idle
			}
			if s.emptyScans >= 6 {
				// Tip query after tip query (three complete scans
				// that asked for nothing else), with no request,
				// block or answer in between: the scanner state
				// repeats, it would go on like this for ever. It
				// stays parked.
				spinning = true
				rc.Probe("scanner_spins_on_unanswerable_request")
				break
			}
			if i > bound {
				// Without faults every batch answers at least the
				// request it started from and asks at most three
				// questions per height, so this many answered
				// calls without reaching idle is a scanner that
				// keeps scanning without finishing its requests.
				spinning = true
				rc.Probe("scanner_keeps_scanning_without_finishing")
				break
			}
			s.release(c, false)
			stateOf("drain")
		}
		for _, r := range s.reqs {
			if r.outcome == "" {
				above := r.birth > s.tip
				lostAtFetch := false
				for i := r.faultsBefore; i < len(s.faultAt); i++ {
					if s.faultAt[i] == fmt.Sprintf("block@%d", r.birth) {
						lostAtFetch = true
					}
				}
				rc.Failf("never-answered", s.facts(r, "start_above_tip", fmt.Sprint(above),
					"block_fetch_failed_at_start", fmt.Sprint(lostAtFetch), "spinning", fmt.Sprint(spinning)),
					"request %d (%s %v birth %d, final tip %d) was never answered although the scanner is %s",
					r.idx, r.what, r.op, r.birth, s.tip, map[bool]string{true: "spinning over an empty scan", false: "idle"}[spinning])
			}
		}
		exactlyOnce()
		for _, r := range s.reqs {
			s.check(r)
		}
		s.stopInit = true
		s.stopDone = make(chan struct{})
		go func() { s.scanner.Stop(); close(s.stopDone) }()
	}

	// ---- shutdown: Stop returns, every caller returns ----
	synctest.Wait() // Stop has closed the quit channel and waits for the scanner
	if tp.Chance(1, 4) {
		toEnqueue = 0
		newRequest(true)
	}
	stopped := false
	for i := 0; i < 200 && !stopped; i++ {
		s.step++
		synctest.Wait()
		s.observe()
		if c := s.takePending(); c != nil {
			s.release(c, true)
			stateOf("rel-stopping")
			continue
		}
		select {
		case <-s.stopDone:
			stopped = true
		default:
			time.Sleep(60 * time.Millisecond)
		}
	}
	if !stopped {
		rc.Failf("stop-blocked", map[string]string{"faults": fmt.Sprint(s.faultsOn)},
			"UtxoScanner.Stop did not return although every call of the scanner was answered")
	}
	synctest.Wait()
	for _, r := range s.reqs {
		s.startWaiter(r)
	}
	synctest.Wait()
	s.observe()
	for _, r := range s.reqs {
		if r.outcome == "" {
			rc.Failf("caller-left-waiting-after-stop", s.facts(r),
				"request %d: Result still blocked after the scanner was stopped", r.idx)
		}
		s.check(r)
	}
	cleaned = true

	answered, nonErr := 0, 0
	outcomes := map[string]int{}
	for _, r := range s.reqs {
		answered++
		outcomes[r.outcome]++
		if r.outcome != "error" {
			nonErr++
		}
	}
	rc.Res.Nontrivial = nonErr >= 1 && s.blocksGiven >= 1
	rc.Res.Sample = map[string]any{"tip0": tip0, "final_tip": s.tip, "requests": len(s.reqs), "outcomes": outcomes,
		"calls_released": s.released, "faults": len(s.injected), "stop_mid_run": stopOn, "blocks_fetched": s.blocksGiven}
}
