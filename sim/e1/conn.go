// Package e1 is engine E1 (netsim): a whole real neutrino.ChainService (btcd
// peer and connmgr stacks, block manager, work manager, stores over real bbolt,
// caches, ban store) inside a testing/synctest bubble, connected through its
// Config.Dialer seam to simulated full nodes. The simulated nodes are
// event-driven state machines, not goroutines: at every quiescent point the
// simulator drains what the client wrote, lets the node models answer from the
// model chain tree, and schedules the answers (delay, order, omission,
// duplication, lies) from the decision tape.
package e1

import (
	"bytes"
	"errors"
	"io"
	"net"
	"sync"
	"time"

	"github.com/btcsuite/btcd/wire/v2"
)

var errRefused = errors.New("verif: connection refused")
var errClosed = errors.New("verif: use of closed connection")

// simConn is the client's end of a simulated TCP connection.
type simConn struct {
	id     int
	net    *Net
	peer   *SimPeer
	local  *net.TCPAddr
	remote *net.TCPAddr

	mu   sync.Mutex
	cond *sync.Cond
	in   []byte // delivered by the simulator, not yet read by the client
	out  []byte // written by the client, not yet taken by the simulator
	// closedLocal: the client closed it. closedRemote: the simulator did.
	closedLocal  bool
	closedRemote bool
	// seenClosed: the simulator has processed the client's close.
	seenClosed bool
	// sig is signalled on every client write/close (free-running mode).
	sig chan struct{}
	// lastAt: delivery time of the latest scheduled answer; the link is
	// TCP-like, so later answers never overtake earlier ones.
	lastAt time.Time
}

func (c *simConn) Read(p []byte) (int, error) {
	c.mu.Lock()
	defer c.mu.Unlock()
	for len(c.in) == 0 && !c.closedLocal && !c.closedRemote {
		c.cond.Wait()
	}
	if len(c.in) > 0 && !c.closedLocal {
		n := copy(p, c.in)
		c.in = c.in[n:]
		return n, nil
	}
	if c.closedLocal {
		return 0, errClosed
	}
	return 0, io.EOF
}

func (c *simConn) Write(p []byte) (int, error) {
	c.mu.Lock()
	if c.closedLocal || c.closedRemote {
		c.mu.Unlock()
		return 0, errClosed
	}
	c.out = append(c.out, p...)
	c.mu.Unlock()
	c.net.notify()
	c.signal()
	return len(p), nil
}

func (c *simConn) Close() error {
	c.mu.Lock()
	already := c.closedLocal
	c.closedLocal = true
	c.cond.Broadcast()
	c.mu.Unlock()
	if !already {
		c.net.notify()
		c.signal()
	}
	return nil
}

func (c *simConn) signal() {
	select {
	case c.sig <- struct{}{}:
	default:
	}
}

func (c *simConn) LocalAddr() net.Addr                { return c.local }
func (c *simConn) RemoteAddr() net.Addr               { return c.remote }
func (c *simConn) SetDeadline(t time.Time) error      { return nil }
func (c *simConn) SetReadDeadline(t time.Time) error  { return nil }
func (c *simConn) SetWriteDeadline(t time.Time) error { return nil }

// fifo turns a wanted delay into one that keeps this connection's answers in
// order (simulator goroutine only).
func (c *simConn) fifo(d time.Duration) time.Duration {
	at := time.Now().Add(d)
	if !at.After(c.lastAt) {
		at = c.lastAt.Add(time.Microsecond)
	}
	c.lastAt = at
	return time.Until(at)
}

// deliver hands bytes to the client's reader (simulator side).
func (c *simConn) deliver(b []byte) {
	c.mu.Lock()
	if !c.closedLocal && !c.closedRemote {
		c.in = append(c.in, b...)
		c.cond.Broadcast()
	}
	c.mu.Unlock()
}

// closeRemote closes the connection from the node's side: the client reads
// what was delivered, then EOF.
func (c *simConn) closeRemote() {
	c.mu.Lock()
	c.closedRemote = true
	c.cond.Broadcast()
	c.mu.Unlock()
	c.signal()
}

// take removes and returns everything the client wrote so far.
func (c *simConn) take() ([]byte, bool) {
	c.mu.Lock()
	defer c.mu.Unlock()
	b := c.out
	c.out = nil
	return b, c.closedLocal
}

func (c *simConn) dead() bool {
	c.mu.Lock()
	defer c.mu.Unlock()
	return c.closedLocal || c.closedRemote
}

// Net is the simulated network: the Dialer seam and the set of connections.
type Net struct {
	mu       sync.Mutex
	peers    map[string]*SimPeer // by "ip:port"
	conns    []*simConn
	activity chan struct{}
	up       map[string]bool     // node reachable (set by the simulator)
	live     map[string]*simConn // latest connection per node
	fresh    []*simConn          // accepted, not yet seen by the simulator
	dials    int
	refused  int
	bnet     wire.BitcoinNet
}

func newNet(bnet wire.BitcoinNet) *Net {
	return &Net{peers: map[string]*SimPeer{}, activity: make(chan struct{}, 1), bnet: bnet,
		up: map[string]bool{}, live: map[string]*simConn{}}
}

func (n *Net) notify() {
	select {
	case n.activity <- struct{}{}:
	default:
	}
}

// Dial is Config.Dialer. It never draws from the tape (it runs on a client
// goroutine): whether a node accepts is state set by the simulator loop.
func (n *Net) Dial(addr net.Addr) (net.Conn, error) {
	n.mu.Lock()
	defer n.mu.Unlock()
	n.dials++
	key := addr.String()
	p := n.peers[key]
	if p == nil || !n.up[key] || (n.live[key] != nil && !n.live[key].dead()) {
		n.refused++
		n.notify()
		return nil, errRefused
	}
	ta := addr.(*net.TCPAddr)
	c := &simConn{id: len(n.conns), net: n, peer: p, remote: ta,
		local: &net.TCPAddr{IP: net.IPv4(10, 9, 9, 9), Port: 40000 + len(n.conns)}}
	c.cond = sync.NewCond(&c.mu)
	c.sig = make(chan struct{}, 1)
	n.conns = append(n.conns, c)
	n.live[key] = c
	// The node model itself is only ever touched by the simulator goroutine:
	// it picks the new connection up at the next quiescent point.
	n.fresh = append(n.fresh, c)
	n.notify()
	return c, nil
}

// takeFresh returns the connections accepted since the last call.
func (n *Net) takeFresh() []*simConn {
	n.mu.Lock()
	defer n.mu.Unlock()
	f := n.fresh
	n.fresh = nil
	return f
}

func (n *Net) nDials() int {
	n.mu.Lock()
	defer n.mu.Unlock()
	return n.dials
}

func (n *Net) setUp(key string, up bool) {
	n.mu.Lock()
	n.up[key] = up
	n.mu.Unlock()
}

// parser splits a byte stream into wire messages.
type parser struct {
	buf  bytes.Buffer
	bnet wire.BitcoinNet
}

// feed appends bytes and returns the complete messages now available. A
// stream that cannot be parsed returns an error (the harness treats this as
// its own failure: the client never writes garbage).
func (p *parser) feed(b []byte) ([]wire.Message, error) {
	p.buf.Write(b)
	var out []wire.Message
	for {
		data := p.buf.Bytes()
		if len(data) < wire.MessageHeaderSize {
			return out, nil
		}
		plen := int(uint32(data[16]) | uint32(data[17])<<8 | uint32(data[18])<<16 | uint32(data[19])<<24)
		if len(data) < wire.MessageHeaderSize+plen {
			return out, nil
		}
		r := bytes.NewReader(data[:wire.MessageHeaderSize+plen])
		_, msg, _, err := wire.ReadMessageWithEncodingN(r, wire.AddrV2Version, p.bnet, wire.WitnessEncoding)
		p.buf.Next(wire.MessageHeaderSize + plen)
		if err != nil {
			if errors.Is(err, wire.ErrUnknownMessage) {
				continue
			}
			return out, err
		}
		out = append(out, msg)
	}
}

func encodeMsg(msg wire.Message, bnet wire.BitcoinNet, enc wire.MessageEncoding) []byte {
	var b bytes.Buffer
	if _, err := wire.WriteMessageWithEncodingN(&b, msg, wire.AddrV2Version, bnet, enc); err != nil {
		panic("encode " + msg.Command() + ": " + err.Error())
	}
	return b.Bytes()
}
