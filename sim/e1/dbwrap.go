package e1

import (
	"container/heap"
	"time"

	"github.com/btcsuite/btcwallet/walletdb"
)

// hookDB is the client's database seen through the seam it already has
// (Config.Database is an interface): every transaction boundary is a point at
// which the simulator may let something else happen. It adds no
// synchronisation unless a hook is armed.
type hookDB struct {
	walletdb.DB
	w *World
}

func (d *hookDB) View(f func(tx walletdb.ReadTx) error, reset func()) error {
	err := d.DB.View(f, reset)
	d.w.dbHook("view")
	return err
}

func (d *hookDB) Update(f func(tx walletdb.ReadWriteTx) error, reset func()) error {
	err := d.DB.Update(f, reset)
	d.w.dbHook("update")
	return err
}

// Batch keeps the filter database on its batched write path.
func (d *hookDB) Batch(f func(tx walletdb.ReadWriteTx) error) error {
	if b, ok := d.DB.(walletdb.BatchDB); ok {
		return b.Batch(f)
	}
	return d.DB.Update(f, func() {})
}

// armDB: fn runs once, on whichever goroutine ends the next database
// transaction (armed at a quiescent point right before a call of the
// simulator's own, so that is the call's goroutine).
func (w *World) armDB(fn func(kind string)) {
	w.ymu.Lock()
	w.dbArm = fn
	w.ymu.Unlock()
}

func (w *World) dbHook(kind string) {
	w.ymu.Lock()
	fn := w.dbArm
	w.dbArm = nil
	w.ymu.Unlock()
	if fn != nil {
		fn(kind)
	}
}

func (w *World) yieldCount(site string) int {
	w.ymu.Lock()
	defer w.ymu.Unlock()
	return w.yieldSeen[site]
}

// flushEvents hands over, at once, every network event scheduled within the
// window (messages in flight arrive together).
func (w *World) flushEvents(window time.Duration) int {
	k := 0
	limit := time.Now().Add(window)
	for len(w.evq) > 0 && !w.evq[0].at.After(limit) && k < 40 {
		ev := heap.Pop(&w.evq).(*event)
		ev.fn()
		k++
	}
	return k
}
