package e1

import (
	"fmt"
	"testing"
	"time"

	"github.com/btcsuite/btcd/chainhash/v2"
	"github.com/btcsuite/btcd/wire/v2"
	"github.com/lightninglabs/neutrino/pushtx"

	"verif/sim/chainmodel"
	"verif/sim/core"
)

func init() {
	core.Register("C15", func(t *testing.T, rc *core.RunCtx) { runBubble(t, rc, runVerdict) })
}

// runVerdict is the verdict half of C15 (the rebroadcast half is engine
// c15): ChainService.SendTransaction against nodes that answer the inv with
// getdata and silence (accepted), getdata and a reject (of any code, once or
// repeated), nothing at all, or a reject without getdata. The call may fail
// only if every node that asked for the transaction rejected it, or the share
// of those nodes calling it invalid reaches the configured threshold (60 %).
func runVerdict(t *testing.T, rc *core.RunCtx) {
	tp := rc.Tape
	params := chainmodel.NewParams(chainmodel.ParamOpts{})
	w := newWorld(t, rc, params)
	n := tp.Range(1, 8)
	plan := &chainPlan{}
	tipTime := w.epoch.Add(-time.Duration(1+tp.Intn(30)) * time.Minute)
	plan.main = w.mineChain(w.tree.Genesis, n, 10*time.Minute, tipTime, 0, "", &plan.salt, 50)

	type rejectKind struct {
		code   wire.RejectCode
		reason string
	}
	kinds := []rejectKind{
		{wire.RejectInvalid, "bad-txns-inputs-missingorspent"},
		{wire.RejectInvalid, "mandatory-script-verify-flag-failed"},
		{wire.RejectDuplicate, "txn-already-in-mempool"},
		{wire.RejectDuplicate, "txn-already-known"},
		{wire.RejectDuplicate, "transaction already exists"},
		{wire.RejectInsufficientFee, "min relay fee not met"},
		{wire.RejectNonstandard, "dust"},
		{wire.RejectInvalid, "already have transaction"},
	}
	nPeers := 1 + tp.Intn(5)
	modes := make([]int, nPeers)   // 0 getdata then silence, 1 getdata then reject, 2 ignore, 3 reject without getdata
	repeats := make([]int, nPeers) // how many times the reject is sent
	for i := 0; i < nPeers; i++ {
		beh := &Behaviour{BaseLatency: time.Duration(5+tp.Intn(150)) * time.Millisecond, Jitter: 20 * time.Millisecond}
		modes[i] = tp.Intn(4)
		k := kinds[tp.Intn(len(kinds))]
		beh.TxMode, beh.RejectCode, beh.RejectReason = modes[i], k.code, k.reason
		beh.ForeignReject = tp.Chance(1, 3)
		repeats[i] = 1
		if tp.Chance(1, 3) {
			repeats[i] = 2 + tp.Intn(3)
		}
		p := w.addPeer("tx-peer", plan.main, beh)
		rc.Logf("node %s txmode=%d reject=%v %q x%d", p.addr.IP, modes[i], k.code, k.reason, repeats[i])
	}
	// repeated rejects
	w.txRejectRepeat = func(p *SimPeer) int { return repeats[p.idx] }
	if err := w.startClient(nil); err != nil {
		rc.Infra("start client: %v", err)
	}
	defer func() {
		if !w.shutdown(10 * time.Minute) {
			rc.Probe("cleanup_stop_did_not_return")
		}
	}()
	w.runFor(10*time.Minute, func() bool {
		bs, err := w.cs.BestBlock()
		return err == nil && bs.Hash == plan.main.Hash && len(w.clientPeers()) == nPeers
	})
	connected := len(w.clientPeers())

	rc.StallClause = "api-call-livelock"
	nTx := 1 + tp.Intn(3)
	for i := 0; i < nTx; i++ {
		tx := wire.NewMsgTx(2)
		tx.AddTxIn(&wire.TxIn{PreviousOutPoint: wire.OutPoint{Hash: chainhash.DoubleHashH([]byte{byte(i), byte(n)}), Index: uint32(i)}})
		tx.AddTxOut(&wire.TxOut{Value: int64(1000 + i), PkScript: w.tree.Keys[i%6].Script})
		h := tx.TxHash()
		var err error
		done := make(chan struct{})
		go func() { err = w.cs.SendTransaction(tx); close(done) }()
		if !w.waitChan(done, 30*time.Minute) {
			rc.Failf("send-transaction-never-returned", nil, "SendTransaction did not return within 30 simulated minutes")
		}
		// What the nodes did for this transaction (everything they sent,
		// whether or not it arrived in time: a superset of what the client
		// can have counted).
		asked, rejected, invalid := 0, 0, 0
		for _, p := range w.peers {
			if p.txGetDataSent[h] > 0 {
				asked++
			}
			if p.txRejectSent[h] > 0 {
				rejected++
				rej := wire.NewMsgReject(wire.CmdTx, p.beh.RejectCode, p.beh.RejectReason)
				rej.Hash = h
				if pushtx.ParseBroadcastError(rej, p.addr.String()).Code == pushtx.Invalid {
					invalid++
				}
			}
		}
		rc.Logf("t=%s SendTransaction %d -> %v (asked %d, rejecting nodes %d, calling it invalid %d, connected %d)", w.clock(), i, err, asked, rejected, invalid, connected)
		rc.State(fmt.Sprintf("verdict|err=%v|asked=%d|rej=%d|inv=%d", err != nil, asked, rejected, invalid))
		if err != nil {
			rc.Probe("broadcast_failed")
			// Justified if every node that asked for the tx also rejected
			// it, or if the invalid share among those reaches 60 %. Nodes
			// that rejected without asking count as rejecting repliers only
			// if they asked (the statement speaks of replying peers); be
			// generous: also accept when all rejecting+asking nodes reject.
			allRejected := asked > 0 && rejected >= asked
			share := asked > 0 && float32(invalid)/float32(asked) >= 0.6
			if !allRejected && !share {
				rc.Failf("broadcast-failed-without-justification", map[string]string{"asked": fmt.Sprint(asked), "rejecting": fmt.Sprint(rejected), "invalid": fmt.Sprint(invalid)},
					"SendTransaction failed (%v) although of the %d nodes that asked for the transaction only %d sent a reject (%d of them an 'invalid' one): neither every replying peer rejected it nor does the invalid share reach 60%%",
					err, asked, rejected, invalid)
			}
		} else {
			rc.Probe("broadcast_accepted")
		}
		w.runFor(time.Duration(tp.Intn(5000))*time.Millisecond, nil)
	}
	rc.StallClause = ""
	rc.Res.Steps = w.steps
	rc.Res.Nontrivial = true
	rc.Res.Sample = map[string]any{"part": "verdict", "nodes": nPeers, "modes": modes, "repeats": repeats, "txs": nTx}
}
