package e1

import (
	"fmt"
	"testing"
	"time"

	"verif/sim/chainmodel"
	"verif/sim/core"
)

// isDirectedC04 picks the seeds of the two directed C04 scenarios below (by
// the seed, so that the tapes of the other runs keep their meaning).
func isDirectedC04(rc *core.RunCtx) bool {
	return rc.Prop == "C04" && rc.Seed%12 == 3
}

// runDirectedC04: two multi-step histories of sync-peer selection that the
// random mix reaches too rarely. Nothing is ever lost, delayed or cut except
// for the one scripted disconnect; every node serves valid data only; the
// chain does not grow afterwards. The client must reach the honest tip.
//
// "late better peer": a node that only has a prefix of the chain (and does not
// serve filter data) is the client's sync peer; the client has all of its
// block headers, so it counts itself current although its filter headers are
// behind, when the honest node completes its handshake advertising more
// blocks.
//
// "sync peer lost mid-sync": the first node, which hands out headers a few at
// a time, is the sync peer; a second node with fewer blocks than the client
// already has and then the honest node connect; the sync peer goes away for
// good in the middle of the header sync.
func runDirectedC04(t *testing.T, rc *core.RunCtx) {
	tp := rc.Tape
	params := chainmodel.NewParams(chainmodel.ParamOpts{})
	w := newWorld(t, rc, params)
	n := tp.Range(12, 30)
	plan := &chainPlan{}
	tipTime := w.epoch.Add(-time.Duration(1+tp.Intn(30)) * time.Minute)
	plan.main = w.mineChain(w.tree.Genesis, n, 10*time.Minute, tipTime, 0, "", &plan.salt, 50)
	lat := func() *Behaviour {
		return &Behaviour{BaseLatency: time.Duration(5+tp.Intn(100)) * time.Millisecond, Jitter: 10 * time.Millisecond}
	}
	variant := "late-better-peer"
	if tp.Chance(1, 2) {
		variant = "sync-peer-lost-mid-sync"
	}
	a := int32(tp.Range(1, n-2))
	var first, lagging, honest *SimPeer
	var more []*SimPeer
	if variant == "late-better-peer" {
		lb := lat()
		lb.NoCF = tp.Chance(2, 3)
		lagging = w.addPeer("lagging", plan.main.Ancestor(a), lb)
		honest = w.addPeer("honest", plan.main, lat())
		honest.setUp(false)
	} else {
		// (slow and a header or two at a time: the sync lasts long enough
		// for the two others to connect while it is under way)
		fb := &Behaviour{BaseLatency: time.Duration(1500+tp.Intn(1500)) * time.Millisecond, Jitter: 10 * time.Millisecond}
		fb.MaxHeaders = 1 + tp.Intn(2)
		a = int32(1 + tp.Intn(3))
		first = w.addPeer("first", plan.main, fb)
		lagging = w.addPeer("lagging", plan.main.Ancestor(a), lat())
		// (two or three such nodes: each attempt to choose a new sync
		// peer drops the candidates that have fallen behind)
		for k := 1 + tp.Intn(2); k > 0; k-- {
			more = append(more, w.addPeer("lagging", plan.main.Ancestor(int32(1+tp.Intn(int(a)))), lat()))
		}
		honest = w.addPeer("honest", plan.main, lat())
		lagging.setUp(false)
		for _, p := range more {
			p.setUp(false)
		}
		honest.setUp(false)
	}
	rc.Logf("directed C04 scenario %s: chain %d blocks, lagging node at %d", variant, n, a)
	rc.Probe("directed_" + variant)
	if err := w.startClient(nil); err != nil {
		rc.Infra("start client: %v", err)
	}
	wt := w.newWatcher(rc.Prop)
	defer func() {
		if !w.shutdown(10 * time.Minute) {
			rc.Probe("cleanup_stop_did_not_return")
		}
	}()
	tipIs := func(h int32) bool {
		_, ch, err := w.cs.BlockHeaders.ChainTip()
		return err == nil && int32(ch) >= h
	}
	shook := func(p *SimPeer) func() bool { return func() bool { return p.connected() && p.shook } }
	ok := true
	if variant == "late-better-peer" {
		ok = w.runFor(2*time.Minute, func() bool { return shook(lagging)() && tipIs(a) })
		honest.setUp(true)
	} else {
		ok = w.runFor(time.Minute, shook(first))
		lagging.setUp(true)
		ok = ok && w.runFor(time.Minute, shook(lagging))
		for _, p := range more {
			p.setUp(true)
			ok = ok && w.runFor(time.Minute, shook(p))
		}
		honest.setUp(true)
		ok = ok && w.runFor(time.Minute, shook(honest))
		// The sync peer goes away once the client is past the lagging
		// node's height (and not yet at the tip).
		ok = ok && w.runFor(5*time.Minute, func() bool { return tipIs(a + 1) })
		if ok && !tipIs(int32(n)) {
			rc.Logf("t=%s the sync peer %s goes away for good", w.clock(), first.addr.IP)
			first.setUp(false)
			first.disconnect("scripted")
		} else {
			rc.Probe("directed_sync_finished_before_the_peer_could_be_lost")
		}
	}
	if !ok {
		rc.Probe("directed_setup_not_reached")
		return
	}
	const bound = 15 * time.Minute
	atTip := func() bool {
		bs, err := w.cs.BestBlock()
		return err == nil && bs.Hash == plan.main.Hash
	}
	if !w.runFor(bound, atTip) {
		wt.check()
		bs, _ := w.cs.BestBlock()
		rc.Failf("no-convergence-after-faults-stopped", map[string]string{"cause": "directed:" + variant},
			"%s: %v after the last scripted step the client reports best block %d, the honest node %s (connected: %v) serves tip %d; block tip %d, filter tip %d",
			variant, bound, bs.Height, honest.addr.IP, honest.connected(), n, wt.prev.tip(), len(wt.prev.filt)-1)
	}
	rc.Probe("directed_converged")
	rc.Res.Steps = w.steps
	rc.Res.Nontrivial = true
	rc.Res.Sample = map[string]any{"directed": variant, "main": n, "lagging_at": a}
	rc.State(fmt.Sprintf("directed|%s", variant))
}
