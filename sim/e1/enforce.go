package e1

import (
	"fmt"
	"testing"
	"time"

	"github.com/btcsuite/btcd/wire/v2"

	"verif/sim/chainmodel"
	"verif/sim/core"
)

func init() {
	core.Register("C13", func(t *testing.T, rc *core.RunCtx) { runBubble(t, rc, runEnforce) })
}

// runEnforce is the enforcement half of C13 (the store half is engine c13):
// nodes that do not offer witness and compact-filter service, or that serve
// a provably invalid block or filter header, must end up banned and
// disconnected; the client keeps no connection to a banned address; honest
// full-service nodes are not banned.
func runEnforce(t *testing.T, rc *core.RunCtx) {
	tp := rc.Tape
	params := chainmodel.NewParams(chainmodel.ParamOpts{})
	w := newWorld(t, rc, params)
	n := tp.Range(2, 20)
	plan := &chainPlan{}
	tipTime := w.epoch.Add(-time.Duration(1+tp.Intn(30)) * time.Minute)
	plan.main = w.mineChain(w.tree.Genesis, n, 10*time.Minute, tipTime, 0, "", &plan.salt, 80)
	chain := plan.main.Chain()

	nPeers := 2 + tp.Intn(3)
	w.addPeer("honest", plan.main, &Behaviour{BaseLatency: time.Duration(5+tp.Intn(60)) * time.Millisecond})
	for i := 1; i < nPeers; i++ {
		beh := &Behaviour{BaseLatency: time.Duration(5+tp.Intn(300)) * time.Millisecond, Jitter: 30 * time.Millisecond}
		role := "honest"
		svc := wire.SFNodeNetwork | wire.SFNodeWitness | wire.SFNodeCF
		switch tp.Intn(8) {
		case 0:
			role, svc = "no-cf-service", wire.SFNodeNetwork|wire.SFNodeWitness
		case 1:
			role, svc = "no-witness-service", wire.SFNodeNetwork|wire.SFNodeCF
		case 2:
			role, svc = "no-witness-no-cf", wire.SFNodeNetwork
		case 3:
			role, svc = "no-services", 0
		case 4:
			role = "block-liar"
			beh.BlockLieAll = []int{blkMutatedTx, blkExtraTx, blkDupTx, blkStripWitness, blkForgedCommit, blkBadWitness}[tp.Intn(6)]
		case 5:
			role = "cf-liar"
			beh.CFLies = map[int32]int{int32(n + 1): 1 + tp.Intn(3)}
		case 6:
			// full services plus extra bits: must be treated as honest
			svc |= wire.SFNodeBloom | wire.SFNode2X
		}
		p := w.addPeer(role, plan.main, beh)
		p.services = svc
		// keep everybody but the honest node away until it is connected (so
		// that filter-header conflicts are decidable, see C03)
		p.setUp(false)
		rc.Logf("node %s role=%s services=%v", p.addr.IP, role, svc)
	}
	if err := w.startClient(nil); err != nil {
		rc.Infra("start client: %v", err)
	}
	wt := w.newWatcher(rc.Prop)
	defer func() {
		if !w.shutdown(10 * time.Minute) {
			rc.Probe("cleanup_stop_did_not_return")
		}
	}()
	w.runFor(time.Minute, func() bool { return w.peers[0].shook && w.peers[0].connected() })
	for _, p := range w.peers {
		p.setUp(true)
	}

	lacks := func(p *SimPeer) bool {
		return p.services&wire.SFNodeWitness == 0 || p.services&wire.SFNodeCF == 0
	}
	// settled: quiescent point at least a simulated second after the last
	// event that could change ban/connection state.
	checkEnforcement := func(when string) {
		connected := map[string]bool{}
		for _, a := range w.clientPeers() {
			connected[ipOf(a)] = true
		}
		for _, p := range w.peers {
			ip := p.addr.IP.String()
			banned := w.cs.IsBanned(p.addr.String())
			if banned && connected[ip] {
				rc.Failf("connection-kept-to-banned-address", map[string]string{"role": p.role},
					"%s: node %s (%s) is in the ban store and still among the client's peers", when, ip, p.role)
			}
			if lacks(p) && p.versionDelivered && !banned {
				rc.Failf("peer-without-required-services-not-banned", map[string]string{"services": fmt.Sprint(p.services)},
					"%s: node %s advertises services %v (witness and compact filters are required), its version message reached the client, and it is not banned", when, ip, p.services)
			}
			if lacks(p) && connected[ip] {
				rc.Failf("peer-without-required-services-kept", map[string]string{"services": fmt.Sprint(p.services)},
					"%s: node %s (services %v) is among the client's peers", when, ip, p.services)
			}
			if !lacks(p) && (p.role == "honest") && banned {
				rc.Failf("honest-full-service-peer-banned", nil, "%s: node %s (honest, all services) is banned", when, ip)
			}
			if p.role == "block-liar" && p.sentBadBlockWithHeader > 0 && !banned {
				rc.Failf("invalid-block-sender-not-banned", map[string]string{"kind": p.lastBadKind},
					"%s: node %s delivered a block with the requested header that fails the checks (%s) and is not banned", when, ip, p.lastBadKind)
			}
			if banned {
				rc.Probe("banned_" + p.role)
			}
		}
	}

	w.runFor(time.Duration(10+tp.Intn(20))*time.Second, nil)
	checkEnforcement("after connecting")

	// Work that makes liars show themselves: a new block (filter-header
	// conflict at its height) and block fetches.
	tip := w.mineChain(plan.main, 1, time.Minute, time.Now().Add(-10*time.Second), 0, "", &plan.salt, 100)
	for _, p := range w.peers {
		p.setView(tip)
	}
	w.peers[0].announce(false, 1)
	w.runFor(time.Duration(25+tp.Intn(20))*time.Second, nil)
	checkEnforcement("after a new block")
	nCalls := tp.Intn(4)
	for i := 0; i < nCalls; i++ {
		blk := chain[1+tp.Intn(n)]
		done := make(chan struct{})
		go func() { w.cs.GetBlock(blk.Hash); close(done) }()
		w.waitChan(done, 5*time.Minute)
		w.runFor(2*time.Second, nil)
		checkEnforcement("after a block fetch")
	}
	// Banned addresses are re-dialled by the connection manager (they are
	// persistent peers): give it time and look again.
	w.runFor(time.Duration(30+tp.Intn(120))*time.Second, nil)
	checkEnforcement("after re-dials")
	wt.check()
	rc.Res.Steps = w.steps
	rc.Res.Nontrivial = true
	var roles []string
	for _, p := range w.peers {
		roles = append(roles, p.role)
	}
	rc.Res.Sample = map[string]any{"part": "enforcement", "main": n, "roles": roles, "block_calls": nCalls, "dials": w.net.nDials()}
	rc.State(fmt.Sprintf("enforce|%v", roles))
}
