package e1

import (
	"os"
	"testing"

	"verif/sim/core"
	"verif/sim/e2"
)

func TestRun(t *testing.T) { core.MainRegistered(t) }

func TestMain(m *testing.M) {
	code := m.Run()
	e2.RemoveTemplate()
	os.Exit(code)
}
