package e1

import (
	"container/heap"
	"context"
	"fmt"
	"github.com/btcsuite/btcd/chainhash/v2"
	"net"
	"os"
	"path/filepath"
	"runtime"
	"sort"
	"strings"
	"sync"
	"testing"
	"testing/synctest"
	"time"

	"github.com/btcsuite/btcd/chaincfg/v2"
	"github.com/btcsuite/btcd/wire/v2"
	"github.com/btcsuite/btclog"
	"github.com/btcsuite/btcwallet/walletdb"
	_ "github.com/btcsuite/btcwallet/walletdb/bdb"
	"github.com/lightninglabs/neutrino"

	"verif/sim/chainmodel"
	"verif/sim/core"
	"verif/sim/e2"
	"verif/sim/fault"
)

type event struct {
	at  time.Time
	seq uint64
	fn  func()
}

type eventHeap []*event

func (h eventHeap) Len() int { return len(h) }
func (h eventHeap) Less(i, j int) bool {
	if h[i].at.Equal(h[j].at) {
		return h[i].seq < h[j].seq
	}
	return h[i].at.Before(h[j].at)
}
func (h eventHeap) Swap(i, j int) { h[i], h[j] = h[j], h[i] }
func (h *eventHeap) Push(x any)   { *h = append(*h, x.(*event)) }
func (h *eventHeap) Pop() any {
	o := *h
	e := o[len(o)-1]
	*h = o[:len(o)-1]
	return e
}

// World is one simulated run: the model, the network, the nodes and the
// client under test.
type World struct {
	t      *testing.T
	rc     *core.RunCtx
	tp     *core.Tape
	params *chaincfg.Params
	tree   *chainmodel.Tree
	net    *Net
	peers  []*SimPeer
	epoch  time.Time // simulated time at which the client was started

	dir     string
	db      walletdb.DB
	cs      *neutrino.ChainService
	cfg     neutrino.Config
	running bool

	evq eventHeap
	seq uint64

	// observers run at every quiescent point, after the client's output has
	// been handed to the node models.
	observers []func()
	// onClientMsg, if set, sees every message the client sent.
	onClientMsg func(p *SimPeer, m wire.Message)

	cfilterTamper func(p *SimPeer, b *chainmodel.Block, msg *wire.MsgCFilter) []wire.Message
	txMode        func(p *SimPeer, h [32]byte) int
	// txRejectRepeat: how often a node repeats its reject of a transaction.
	txRejectRepeat func(p *SimPeer) int

	steps int
	halt  bool
	// burst: see stepUntil.
	burst  bool
	nBurst int
	// clientCloses: connections the client itself closed (whatever was in
	// flight on them is lost).
	clientCloses int

	// Yield points (hook H7): the block manager's goroutines call yieldHook
	// between two steps of one chain change. An armed plan parks the
	// calling goroutine there (a durable, simulated-time sleep; no mutex is
	// held at these points) so that whatever the scenario does next happens
	// at that very instant. While a goroutine is parked the regular
	// observers are not run (the chain change is half done); onParked, if
	// set, is run once per park by the simulator's own goroutine.
	ymu         sync.Mutex
	yieldPlans  []*yieldPlan
	yieldSeen   map[string]int
	parked      string
	parkHandled bool
	nParks      int
	onParked    func(site string)
	dbArm       func(kind string)
	// cfCommits: stop blocks of the filter-header batches committed, in order.
	cfCommits []chainhash.Hash
	softAct   func() // see yieldHook, site cfhandler.beforeWait
	softNth   int
	plainDB   bool // hand the client the database itself, not hookDB
	// parkedReturn: runFor may end (deadline or predicate) while a client
	// goroutine is parked.
	parkedReturn bool
	// freeRun: engine E5's mode. Nodes answer at once from their own
	// goroutines; nothing may touch the tape, the event queue or the run
	// context from there.
	freeRun bool
}

type yieldPlan struct {
	site string
	nth  int // fire at the nth time the site is reached after arming
	dur  time.Duration
	seen int
	done bool
}

// yieldSites are the hook-H7 sites of the block manager.
var yieldSites = []string{"headers.beforeTipUpdate", "reorg.afterRollback", "rollback.beforeBlock",
	"cfheaders.afterStoreWrite", "cfheaders.beforeEvent", "ntfns.backlogBuilt", "cfheaders.beforeStoreWrite"}

// armYield plans one park: the nth time from now that a client goroutine
// reaches site it sleeps there for dur of simulated time.
func (w *World) armYield(site string, nth int, dur time.Duration) {
	w.ymu.Lock()
	w.yieldPlans = append(w.yieldPlans, &yieldPlan{site: site, nth: nth, dur: dur})
	w.ymu.Unlock()
	w.rc.Logf("t=%s yield plan: park at %s (occurrence %d) for %v", w.clock(), site, nth, dur)
}

// yieldHook is neutrino.VerifYield for this run. It runs on client goroutines.
func (w *World) yieldHook(site string) {
	if site == "cfheaders.caughtUp" {
		// The filter-header goroutine found the stores level although
		// the in-memory tips differ, and is about to look again at once.
		// In a deployment that busy-wait ends when the block handler
		// finishes its step; in a bubble it would keep simulated time
		// (and with it a parked block handler) from ever moving. It
		// becomes a one-millisecond wait here.
		time.Sleep(time.Millisecond)
		return
	}
	if site == "cfhandler.beforeWait" {
		// A soft site: the filter-header goroutine is about to wait for the
		// new-headers signal and holds the mutex of that condition. It is
		// never held here; an armed action (the scenario makes the chain
		// grow and hands the announcement over at once) runs on this
		// goroutine, which then yields the processor until the block
		// handler has dealt with the message or cannot get on.
		w.ymu.Lock()
		w.yieldSeen[site]++
		act := w.softAct
		if act != nil && w.yieldSeen[site] == w.softNth {
			w.softAct = nil
		} else {
			act = nil
		}
		w.ymu.Unlock()
		if act != nil && !w.freeRun {
			before := w.yieldCount("headers.beforeTipUpdate")
			act()
			for i := 0; i < 20000 && w.yieldCount("headers.beforeTipUpdate") == before; i++ {
				runtime.Gosched()
			}
			// the block handler now finishes its message or waits for
			// the mutex this goroutine holds
			for i := 0; i < 2000; i++ {
				runtime.Gosched()
			}
		}
		return
	}
	if site == "cfheaders.afterStoreWrite" && w.cs != nil && !w.freeRun {
		// Which batch was just committed: the block at the filter store's
		// new tip is the stop block of the answer it was taken from.
		if _, h, err := w.cs.RegFilterHeaders.ChainTip(); err == nil {
			if hdr, err := w.cs.BlockHeaders.FetchHeaderByHeight(h); err == nil {
				w.ymu.Lock()
				w.cfCommits = append(w.cfCommits, hdr.BlockHash())
				w.ymu.Unlock()
			}
		}
	}
	w.ymu.Lock()
	w.yieldSeen[site]++
	var hit *yieldPlan
	if w.parked == "" && !w.freeRun {
		for _, pl := range w.yieldPlans {
			if pl.done || pl.site != site {
				continue
			}
			pl.seen++
			if pl.seen == pl.nth {
				pl.done = true
				hit = pl
				break
			}
		}
	}
	if hit != nil {
		w.parked = site
		w.parkHandled = false
		w.nParks++
	}
	w.ymu.Unlock()
	if hit == nil {
		return
	}
	select {
	case w.net.activity <- struct{}{}:
	default:
	}
	time.Sleep(hit.dur)
	w.ymu.Lock()
	w.parked = ""
	w.ymu.Unlock()
}

// parkedAt returns the site a client goroutine is parked at ("" = none).
func (w *World) parkedAt() string {
	w.ymu.Lock()
	defer w.ymu.Unlock()
	return w.parked
}

// SimStart is the simulated date every run jumps to before anything else
// (the bubble's clock starts at 2000-01-01; header rules read the clock).
var SimStart = time.Date(2026, 3, 1, 12, 0, 0, 0, time.UTC)

// newWorld prepares the data directory and the model; the caller adds nodes
// and starts the client. Must be called inside the bubble.
func newWorld(t *testing.T, rc *core.RunCtx, params *chaincfg.Params) *World {
	// Jump the fake clock to the simulated date plus a tape-chosen offset.
	off := time.Duration(rc.Tape.Intn(5000)) * time.Second
	jump := SimStart.Add(off).Sub(time.Now())
	time.Sleep(jump)
	rc.Res.SimNs -= int64(jump) // the jump is not simulated activity
	w := &World{t: t, rc: rc, tp: rc.Tape, params: params, epoch: time.Now(), yieldSeen: map[string]int{}}
	neutrino.VerifYield = w.yieldHook
	w.tree = chainmodel.NewTree(params)
	w.net = newNet(params.Net)
	tmpl, err := e2.Template()
	if err != nil {
		rc.Infra("template: %v", err)
	}
	w.dir = filepath.Join(rc.Dir, "data")
	if err := fault.CopyDir(tmpl, w.dir); err != nil {
		rc.Infra("copy template: %v", err)
	}
	return w
}

func (w *World) clock() string {
	return time.Since(w.epoch).Truncate(time.Millisecond).String()
}

// after schedules fn at now+d (d<=0: as soon as possible, FIFO).
func (w *World) after(d time.Duration, fn func()) {
	if d < 0 {
		d = 0
	}
	w.seq++
	heap.Push(&w.evq, &event{at: time.Now().Add(d), seq: w.seq, fn: fn})
}

// addPeer creates a node serving view.
func (w *World) addPeer(role string, view *chainmodel.Block, beh *Behaviour) *SimPeer {
	idx := len(w.peers)
	p := &SimPeer{w: w, idx: idx, role: role, view: view, beh: beh,
		addr:     &net.TCPAddr{IP: net.IPv4(10, 0, byte(idx/200), byte(1+idx%200)), Port: 18444},
		services: wire.SFNodeNetwork | wire.SFNodeWitness | wire.SFNodeCF}
	if beh == nil {
		p.beh = &Behaviour{}
	}
	w.peers = append(w.peers, p)
	w.net.mu.Lock()
	w.net.peers[p.addr.String()] = p
	w.net.up[p.addr.String()] = true
	w.net.mu.Unlock()
	return p
}

// startClient opens the database and starts a ChainService on the data
// directory (also used for restarts).
func (w *World) startClient(tweak func(cfg *neutrino.Config)) error {
	db, err := walletdb.Open("bdb", filepath.Join(w.dir, "neutrino.db"), true, 10*time.Second, false)
	if err != nil {
		return fmt.Errorf("open db: %w", err)
	}
	w.db = db
	var addrs []string
	for _, p := range w.peers {
		addrs = append(addrs, p.addr.String())
	}
	neutrino.DisableDNSSeed = true
	if lvl := os.Getenv("VERIF_CLIENT_LOG"); lvl != "" {
		// Debug aid only (never used by oracles): the client's own log.
		backend := btclog.NewBackend(os.Stdout)
		lg := backend.Logger("NTRN")
		l, _ := btclog.LevelFromString(lvl)
		lg.SetLevel(l)
		neutrino.UseLogger(lg)
	}
	var cdb walletdb.DB = db
	if !w.plainDB {
		cdb = &hookDB{DB: db, w: w}
	}
	cfg := neutrino.Config{
		DataDir:      w.dir,
		Database:     cdb,
		ChainParams:  *w.params,
		ConnectPeers: addrs,
		Dialer:       w.net.Dial,
		NameResolver: func(host string) ([]net.IP, error) {
			ip := net.ParseIP(host)
			if ip == nil {
				return nil, fmt.Errorf("no such host %q", host)
			}
			return []net.IP{ip}, nil
		},
	}
	if tweak != nil {
		tweak(&cfg)
	}
	w.cfg = cfg
	cs, err := neutrino.NewChainService(cfg)
	if err != nil {
		db.Close()
		w.db = nil
		return fmt.Errorf("NewChainService: %w", err)
	}
	w.cs = cs
	if err := cs.Start(context.Background()); err != nil {
		return fmt.Errorf("Start: %w", err)
	}
	w.running = true
	return nil
}

// closeAllConns closes every simulated connection from the node side.
func (w *World) closeAllConns() {
	w.net.mu.Lock()
	conns := append([]*simConn(nil), w.net.conns...)
	w.net.mu.Unlock()
	for _, c := range conns {
		c.closeRemote()
	}
}

// shutdown stops the client (bounded in simulated time by the caller's
// oracle when that matters; here it is clean-up), closes connections and the
// database. It returns false if Stop did not return within the bound.
func (w *World) shutdown(bound time.Duration) bool {
	ok := true
	if w.running {
		done := make(chan struct{})
		go func() { w.cs.Stop(); close(done) }()
		ok = w.waitChan(done, bound)
		w.running = false
	}
	for _, p := range w.peers {
		p.setUp(false)
	}
	w.closeAllConns()
	synctest.Wait()
	if ok && w.db != nil {
		w.db.Close()
		w.db = nil
	}
	return ok
}

// waitChan runs the simulation until ch is closed or bound of simulated time
// has passed.
func (w *World) waitChan(ch <-chan struct{}, bound time.Duration) bool {
	deadline := time.Now().Add(bound)
	for {
		synctest.Wait()
		select {
		case <-ch:
			return true
		default:
		}
		if !time.Now().Before(deadline) {
			return false
		}
		w.stepUntil(deadline, ch)
	}
}

// collect hands everything the client wrote to the node models, in canonical
// (connection id) order.
func (w *World) collect() {
	// Canonical order: by node, then by age of the connection. (The order in
	// which the client dials several nodes at the same simulated instant is
	// the Go runtime's; connection ids follow it and must not leak into the
	// order in which the tape is consumed.)
	byNode := func(cs []*simConn) {
		sort.SliceStable(cs, func(i, j int) bool {
			if cs[i].peer.idx != cs[j].peer.idx {
				return cs[i].peer.idx < cs[j].peer.idx
			}
			return cs[i].id < cs[j].id
		})
	}
	fresh := w.net.takeFresh()
	byNode(fresh)
	for _, c := range fresh {
		c.peer.attach(c)
	}
	w.net.mu.Lock()
	conns := append([]*simConn(nil), w.net.conns...)
	w.net.mu.Unlock()
	byNode(conns)
	for _, c := range conns {
		b, closed := c.take()
		p := c.peer
		if len(b) > 0 && p.conn == c {
			msgs, err := p.par.feed(b)
			if err != nil {
				w.rc.Infra("client wrote an unparsable message to %s: %v", p.addr, err)
			}
			for _, m := range msgs {
				w.rc.Logf("t=%s client -> %s: %s", w.clock(), p.addr.IP, describe(m))
				if w.onClientMsg != nil {
					w.onClientMsg(p, m)
				}
				p.handle(m)
			}
		}
		if closed && !c.seenClosed {
			c.seenClosed = true
			w.rc.Logf("t=%s client closed connection to %s", w.clock(), p.addr.IP)
			w.clientCloses++
			c.mu.Lock()
			first := !c.closedRemote
			c.mu.Unlock()
			if first && p.shook {
				// the client cut an established connection the node had
				// not closed
				p.clientCuts++
			}
		}
	}
}

// stepUntil performs one iteration of the discrete-event loop: quiesce, feed
// the nodes, observe, then run the next due event or sleep (fake time) until
// the next event, the deadline, client activity or wake.
func (w *World) stepUntil(deadline time.Time, wake <-chan struct{}) {
	synctest.Wait()
	w.collect()
	// collect may close connections (node behaviours), which wakes client
	// goroutines: observe only once they have settled again.
	synctest.Wait()
	if site := w.parkedAt(); site != "" {
		// A client goroutine is parked between two steps of one chain
		// change: the regular oracles (which compare completed states)
		// wait; the scenario's racing action runs once.
		w.ymu.Lock()
		first := !w.parkHandled
		w.parkHandled = true
		w.ymu.Unlock()
		if first {
			w.rc.Probe("park_" + site)
			w.rc.Logf("t=%s parked: a client goroutine is at %s", w.clock(), site)
			if w.onParked != nil {
				w.onParked(site)
			}
		}
	} else {
		for _, o := range w.observers {
			o()
		}
	}
	w.steps++
	now := time.Now()
	if len(w.evq) > 0 && !w.evq[0].at.After(now) {
		ev := heap.Pop(&w.evq).(*event)
		ev.fn()
		// Burst runs: whatever is due within the same millisecond arrives
		// back to back, without the client coming to rest in between
		// (messages pipelined on one connection, or from several nodes).
		for k := 0; w.burst && k < 8 && len(w.evq) > 0 && !w.evq[0].at.After(now.Add(time.Millisecond)); k++ {
			ev := heap.Pop(&w.evq).(*event)
			ev.fn()
			w.nBurst++
		}
		return
	}
	next := deadline
	if len(w.evq) > 0 && w.evq[0].at.Before(next) {
		next = w.evq[0].at
	}
	if !next.After(now) {
		return
	}
	timer := time.NewTimer(next.Sub(now))
	select {
	case <-w.net.activity:
	case <-timer.C:
	case <-wake:
	}
	timer.Stop()
}

// runFor advances the simulation by d of simulated time (or until pred, if
// non-nil, holds at a quiescent point; or the run is halted).
func (w *World) runFor(d time.Duration, pred func() bool) bool {
	deadline := time.Now().Add(d)
	maxSteps := w.steps + 200000
	for !w.halt {
		synctest.Wait()
		// While a client goroutine is parked half-way through a chain
		// change nothing is judged and no phase ends (unless the scenario
		// asked to be handed exactly such instants).
		parked := w.parkedAt() != ""
		if !parked || w.parkedReturn {
			if pred != nil && pred() {
				return true
			}
			if !time.Now().Before(deadline) {
				return pred == nil
			}
		}
		if w.steps > maxSteps {
			w.rc.Infra("step cap reached in runFor(%v) at t=%s", d, w.clock())
		}
		dl := deadline
		if !time.Now().Before(dl) {
			dl = time.Now().Add(10 * time.Second) // until the park ends
		}
		w.stepUntil(dl, nil)
	}
	return false
}

// peerAddrs returns the addresses of the client's connected peers, sorted.
func (w *World) clientPeers() []string {
	var out []string
	for _, sp := range w.cs.Peers() {
		out = append(out, sp.Addr())
	}
	sort.Strings(out)
	return out
}

func ipOf(addr string) string {
	if i := strings.LastIndex(addr, ":"); i >= 0 {
		return addr[:i]
	}
	return addr
}
