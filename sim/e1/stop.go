package e1

import (
	"container/heap"
	"fmt"
	"runtime"
	"testing"
	"testing/synctest"
	"time"

	"github.com/btcsuite/btcd/btcutil/v2"
	"github.com/btcsuite/btcd/chainhash/v2"
	"github.com/btcsuite/btcd/rpcclient"
	"github.com/btcsuite/btcd/wire/v2"
	"github.com/lightninglabs/neutrino"
	"github.com/lightninglabs/neutrino/headerfs"

	"verif/sim/chainmodel"
	"verif/sim/core"
)

func init() {
	core.Register("C17", func(t *testing.T, rc *core.RunCtx) { runBubble(t, rc, runStop) })
}

// pendingCall is one API call issued before Stop.
type pendingCall struct {
	name string
	done chan struct{}
	err  error
	// returned before Stop was called
	early bool
}

// runStop: a client in a tape-chosen state of activity (idle, mid header
// sync, mid reorganisation, mid filter-header query, with block, filter,
// utxo, rescan, broadcast calls and subscriptions in flight, with silent or
// slow nodes), then Stop. Stop must return within a bound of simulated time,
// every blocked caller must return, and the data directory must reopen with a
// valid chain.
func runStop(t *testing.T, rc *core.RunCtx) {
	tp := rc.Tape
	params := chainmodel.NewParams(chainmodel.ParamOpts{RetargetInterval: []int{0, 8}[tp.Intn(2)]})
	w := newWorld(t, rc, params)
	n := tp.Range(1, 30)
	plan := &chainPlan{}
	tipTime := w.epoch.Add(-time.Duration(1+tp.Intn(30)) * time.Minute)
	plan.main = w.mineChain(w.tree.Genesis, n, 10*time.Minute, tipTime, 0, "", &plan.salt, 70)
	chain := plan.main.Chain()

	nPeers := 1 + tp.Intn(3)
	for i := 0; i < nPeers; i++ {
		beh := &Behaviour{BaseLatency: time.Duration(5+tp.Intn(400)) * time.Millisecond, Jitter: 50 * time.Millisecond}
		role := "honest"
		switch tp.Intn(6) {
		case 0:
			role = "no-blocks"
			beh.BlockLieAll = blkSilent
		case 1:
			role = "no-cf"
			beh.NoCF = true
		case 2:
			role = "silent"
			beh.SilentAfter = 1 + tp.Intn(12)
		case 3:
			role = "slow"
			beh.BaseLatency = time.Duration(1+tp.Intn(20)) * time.Second
			beh.MaxHeaders = 1 + tp.Intn(5)
		}
		if tp.Chance(1, 4) {
			beh.MaxHeaders = 1 + tp.Intn(4)
		}
		if tp.Chance(1, 3) {
			beh.DupPct = 20 + tp.Intn(70)
		}
		beh.TxMode = tp.Intn(4)
		beh.RejectCode = wire.RejectInvalid
		beh.RejectReason = "bad-txns"
		p := w.addPeer(role, plan.main, beh)
		rc.Logf("node %s role=%s latency=%v", p.addr.IP, role, beh.BaseLatency)
	}
	persist := tp.Chance(1, 3)
	// One run in four: one of the configured peers is a host name that does
	// not resolve (the resolver goroutine keeps retrying with a back-off).
	badHost := tp.Chance(1, 4)
	if err := w.startClient(func(cfg *neutrino.Config) {
		cfg.PersistToDisk = persist
		if badHost {
			cfg.ConnectPeers = append(cfg.ConnectPeers, "no-such-host.invalid:18444")
			rc.Probe("unresolvable_peer_configured")
		}
	}); err != nil {
		rc.Infra("start client: %v", err)
	}
	wt := w.newWatcher(rc.Prop)
	cleanedUp := false
	defer func() {
		if !cleanedUp {
			w.shutdown(10 * time.Minute)
		}
	}()

	// One run in three: a block-manager goroutine is parked between two
	// steps of one chain change (hook H7) and Stop is called at that very
	// instant.
	var parkPred func() bool
	if tp.Chance(1, 3) {
		site := yieldSites[tp.Intn(len(yieldSites))]
		w.armYield(site, 1+tp.Intn(6), time.Duration(1+tp.Intn(5000))*time.Millisecond)
		parkPred = func() bool { return w.parkedAt() != "" }
		w.parkedReturn = true
	}

	// Phase 1: let it run for a while (possibly not even connected yet).
	w.runFor(time.Duration(tp.Intn(25000))*time.Millisecond, parkPred)

	// Phase 2: put work in flight.
	var calls []*pendingCall
	issue := func(name string, f func() error) {
		c := &pendingCall{name: name, done: make(chan struct{})}
		calls = append(calls, c)
		rc.Logf("t=%s issue %s", w.clock(), name)
		go func() {
			c.err = f()
			close(c.done)
		}()
	}
	cs := w.cs
	var subs []*simSub
	sw := &subWatch{w: w, wt: wt}
	nWork := tp.Intn(7)
	honestTip := plan.main
	// GetCFilter serialises its callers on a plain mutex, which a bubble
	// cannot wait through (simulated time would freeze): at most one of the
	// calls that fetch filters (GetCFilter, GetUtxo, Rescan) per run.
	filterUser := false
	utxoUser := false // the filter-fetching call of this run is GetUtxo: more of them may follow
	// A rescan is a background job with its own quit channel: it must not
	// keep Stop from returning, and once its owner cancels it (after Stop
	// has returned) it must wind down although the client is gone.
	rescanQuit := make(chan struct{})
	for i := 0; i < nWork; i++ {
		blk := chain[1+tp.Intn(n)]
		kind := tp.Intn(9)
		if kind >= 1 && kind <= 3 {
			switch {
			case filterUser && utxoUser && kind == 2:
				// several UTXO scans queue up behind one another inside the
				// scanner (one goroutine fetches their filters)
			case filterUser:
				kind = 0
			default:
				filterUser = true
				utxoUser = kind == 2
			}
		}
		switch kind {
		case 0:
			issue(fmt.Sprintf("GetBlock(%d)", blk.Height), func() error { _, err := cs.GetBlock(blk.Hash); return err })
		case 1:
			issue(fmt.Sprintf("GetCFilter(%d)", blk.Height), func() error {
				_, err := cs.GetCFilter(blk.Hash, wire.GCSFilterRegular, neutrino.OptimisticBatch())
				return err
			})
		case 2:
			// An outpoint of the model chain (spent or not).
			pool := plan.main.Pool()
			if len(pool) == 0 {
				continue
			}
			u := pool[tp.Intn(len(pool))]
			start := int32(tp.Intn(n + 1))
			issue(fmt.Sprintf("GetUtxo(start %d)", start), func() error {
				_, err := cs.GetUtxo(neutrino.WatchInputs(neutrino.InputWithScript{OutPoint: u.Op, PkScript: u.Script}),
					neutrino.StartBlock(&headerfs.BlockStamp{Height: start}))
				return err
			})
		case 3:
			start := int32(tp.Intn(n + 1))
			addr := w.tree.Keys[tp.Intn(len(w.tree.Keys))].Addr
			issue(fmt.Sprintf("Rescan(start %d)", start), func() error {
				r := neutrino.NewRescan(&neutrino.RescanChainSource{ChainService: cs},
					neutrino.QuitChan(rescanQuit),
					neutrino.StartBlock(&headerfs.BlockStamp{Height: start, Hash: chain[start].Hash}),
					neutrino.WatchAddrs(addr),
					neutrino.NotificationHandlers(rpcclient.NotificationHandlers{
						OnFilteredBlockConnected:    func(int32, *wire.BlockHeader, []*btcutil.Tx) {},
						OnFilteredBlockDisconnected: func(int32, *wire.BlockHeader) {},
					}))
				errc := r.Start()
				r.WaitForShutdown()
				select {
				case err := <-errc:
					return err
				default:
					return nil
				}
			})
		case 4:
			tx := wire.NewMsgTx(2)
			tx.AddTxIn(&wire.TxIn{PreviousOutPoint: wire.OutPoint{Hash: chainhash.DoubleHashH([]byte{byte(i)}), Index: 0}})
			tx.AddTxOut(&wire.TxOut{Value: 1000, PkScript: w.tree.Keys[0].Script})
			issue("SendTransaction", func() error { return cs.SendTransaction(tx) })
		case 5:
			if s := sw.open(0); s != nil {
				subs = append(subs, s)
			}
		case 6:
			issue("Peers", func() error { cs.Peers(); cs.ConnectedCount(); return nil })
		case 7:
			// growth right before Stop: a header / filter-header batch in flight
			honestTip = w.mineChain(honestTip, 1+tp.Intn(3), time.Minute, time.Now().Add(-10*time.Second), 0, "", &plan.salt, 70)
			for _, p := range w.peers {
				p.setView(honestTip)
				p.announce(tp.Chance(1, 2), 1)
			}
			rc.Probe("growth_before_stop")
		case 8:
			// a reorganisation right before Stop
			d := 1 + tp.Intn(minInt(int(honestTip.Height), 3))
			at := honestTip.Ancestor(honestTip.Height - int32(d))
			nt := w.mineChain(at, d+1, time.Minute, time.Now().Add(-10*time.Second), 0, "", &plan.salt, 70)
			if nt.CumWork.Cmp(honestTip.CumWork) > 0 {
				honestTip = nt
				for _, p := range w.peers {
					p.setView(honestTip)
					p.announce(tp.Chance(1, 2), 1)
				}
				rc.Probe("reorg_before_stop")
			}
		}
		if parkPred != nil && parkPred() {
			break
		}
		w.runFor(time.Duration(tp.Intn(3000))*time.Millisecond, parkPred)
	}
	if parkPred == nil || !parkPred() {
		w.runFor(time.Duration(tp.Intn(8000))*time.Millisecond, parkPred)
	}
	synctest.Wait()
	pendingAtStop := 0
	for _, c := range calls {
		select {
		case <-c.done:
			c.early = true
			rc.Logf("returned before Stop: %s: %v", c.name, c.err)
		default:
			pendingAtStop++
		}
	}
	state := "idle"
	if bs, err := cs.BestBlock(); err == nil && bs.Hash != honestTip.Hash {
		state = "syncing"
	}
	if pendingAtStop > 0 {
		state += "+calls"
	}
	if site := w.parkedAt(); site != "" {
		state += "+parked:" + site
		rc.Probe("stop_while_parked_" + site)
	}
	// Abrupt mode: Stop does not wait for a quiet client. The next network
	// deliveries (everything scheduled within a short window after the
	// first) are handed over in one go and Stop is called while the client
	// is still working through them.
	if w.parkedAt() == "" && tp.Chance(1, 2) && len(w.evq) > 0 {
		window := []time.Duration{0, 100 * time.Millisecond, 2 * time.Second}[tp.Intn(3)]
		first := w.evq[0].at
		if d := time.Until(first); d > 0 {
			time.Sleep(d)
		}
		k := 0
		for len(w.evq) > 0 && !w.evq[0].at.After(first.Add(window)) && k < 40 {
			ev := heap.Pop(&w.evq).(*event)
			ev.fn()
			k++
		}
		// Let the client start on them: a drawn number of scheduler
		// yields (no quiescence wait), so that Stop lands while a
		// message is between the connection and the end of its
		// handler.
		for y := tp.Intn(24); y > 0; y-- {
			runtime.Gosched()
		}
		state += "+abrupt"
		rc.Probe("stop_abrupt")
		rc.Logf("t=%s abrupt: %d network events handed over right before Stop (window %v)", w.clock(), k, window)
	}
	rc.Logf("t=%s STOP (state %s, %d calls pending)", w.clock(), state, pendingAtStop)
	rc.State("stop|" + state)

	// Phase 3: Stop (sometimes twice, concurrently).
	const bound = 10 * time.Minute
	rc.StallClause = "stop-livelock"
	rc.StallFacts = map[string]string{"state": state}
	stopDone := make(chan struct{})
	go func() { cs.Stop(); close(stopDone) }()
	var stop2 chan struct{}
	if tp.Chance(1, 4) {
		stop2 = make(chan struct{})
		go func() { cs.Stop(); close(stop2) }()
	}
	w.running = false // observers must not touch the stores while they close
	if !w.waitChan(stopDone, bound) {
		rc.Failf("stop-did-not-return", map[string]string{"state": state},
			"Stop did not return within %v of simulated time (state %s, %d calls pending)", bound, state, pendingAtStop)
	}
	if stop2 != nil && !w.waitChan(stop2, time.Minute) {
		rc.Failf("second-stop-did-not-return", nil, "a concurrent second Stop did not return")
	}
	rc.Probe("stop_returned_" + state)
	close(rescanQuit)
	// Every caller must come back.
	for _, c := range calls {
		if !w.waitChan(c.done, bound) {
			rc.Failf("caller-not-released", map[string]string{"call": callKind(c.name)},
				"%s was still blocked %v of simulated time after Stop had returned", c.name, bound)
		}
		if !c.early {
			rc.Probe("released_" + callKind(c.name))
			rc.Logf("released %s: %v", c.name, c.err)
		}
	}
	for _, s := range subs {
		closed := false
		for i := 0; i < 10000 && !closed; i++ {
			select {
			case _, ok := <-s.sub.Notifications:
				if !ok {
					closed = true
				}
			default:
				synctest.Wait()
				select {
				case _, ok := <-s.sub.Notifications:
					if !ok {
						closed = true
					}
				default:
					i = 10000
				}
			}
		}
		if !closed {
			rc.Failf("subscription-not-closed", nil, "a block subscription's channel is still open after Stop returned")
		}
		rc.Probe("subscription_closed")
	}
	rc.StallClause = ""

	// Phase 4: close everything and reopen the data directory.
	for _, p := range w.peers {
		p.setUp(false)
	}
	w.closeAllConns()
	synctest.Wait()
	if w.db != nil {
		w.db.Close()
		w.db = nil
	}
	w.net.mu.Lock()
	w.net.conns = nil
	w.net.mu.Unlock()
	if err := w.startClient(nil); err != nil {
		rc.Failf("reopen-failed", map[string]string{"state": state}, "a fresh ChainService on the data directory after Stop: %v", err)
	}
	wt2 := &watcher{w: w, prop: rc.Prop, checkC01: true, checkC03: true, fullEvery: 1}
	wt2.check()
	rc.Probe("reopened_and_checked")
	w.shutdown(10 * time.Minute)
	cleanedUp = true

	rc.Res.Steps = w.steps
	rc.Res.Nontrivial = true
	var names []string
	for _, c := range calls {
		names = append(names, c.name)
	}
	rc.Res.Sample = map[string]any{"main": n, "nodes": nPeers, "state_at_stop": state, "calls": names, "pending_at_stop": pendingAtStop,
		"subs": len(subs), "block_tip_after_reopen": wt2.prev.tip(), "filter_tip_after_reopen": len(wt2.prev.filt) - 1}
}

func callKind(name string) string {
	for i, r := range name {
		if r == '(' {
			return name[:i]
		}
	}
	return name
}
