package e1

import (
	"fmt"
	"net"
	"time"

	"github.com/btcsuite/btcd/btcutil/v2/gcs"
	"github.com/btcsuite/btcd/btcutil/v2/gcs/builder"
	"github.com/btcsuite/btcd/chainhash/v2"
	"github.com/btcsuite/btcd/txscript/v2"
	"github.com/btcsuite/btcd/wire/v2"

	"verif/sim/chainmodel"
)

// Lie kinds for filter data at one height.
const (
	lieNone     = iota
	lieHashOnly // cfheaders/cfcheckpt carry a wrong filter hash; the filter served is the true one (does not hash to the advertised value)
	lieOmit     // serves (consistently) a filter that omits an output script of the block
	lieNoServe  // wrong filter hash, never serves the filter
	lieExtra    // serves (consistently) a filter with an extra element: not refutable from the block
	lieOpReturn // serves (consistently) a filter that also contains the block's OP_RETURN script
	numLieKinds
)

var lieNames = []string{"none", "hash-only", "omit", "no-serve", "extra", "op-return"}

// Block lie kinds for getdata(block) answers.
const (
	blkHonest       = iota
	blkOther        // another block of the chain
	blkMutatedTx    // a transaction output value changed (merkle mismatch)
	blkExtraTx      // a transaction appended (merkle mismatch)
	blkRemovedTx    // last transaction removed (merkle mismatch)
	blkDupTx        // last transaction duplicated (merkle root unchanged for odd counts: CVE-2012-2459 shape)
	blkStripWitness // witness data stripped from the non-coinbase transactions
	blkForgedCommit // coinbase witness commitment altered together with... nothing (merkle mismatch) or witness nonce changed (commitment mismatch)
	blkBadWitness   // a witness item changed: txids and merkle root unchanged, commitment no longer matches
	blkSilent       // no answer
	blkStream       // never the block asked for, but other blocks of the chain every 400 ms for 40 s
	numBlkKinds
)

var blkNames = []string{"honest", "other-block", "mutated-tx", "extra-tx", "removed-tx", "dup-tx",
	"strip-witness", "forged-commit", "bad-witness", "silent", "stream-of-other-blocks"}

// Behaviour is a peer's behaviour program, drawn per run from the tape.
type Behaviour struct {
	// Transport/liveness.
	BaseLatency time.Duration // added to every answer
	Jitter      time.Duration // plus a tape-drawn share of this
	DropPct     int           // chance (percent) that an answer is omitted
	DupPct      int           // chance that an answer is sent twice
	// HandshakeDrops: that many connections (the first ones) die after the
	// client's version message arrived and before the node answered.
	HandshakeDrops int
	StallPct       int // chance that an answer is delayed by StallFor
	StallFor       time.Duration
	SilentAfter    int // stops answering anything (also pings) after this many received messages (0 = never)
	CloseAfter     int // closes the connection after this many received messages (0 = never)
	NoPong         bool
	AnnounceTx     bool // sends a tx inv right after the handshake

	// Headers.
	MaxHeaders int // max headers per message (0 = 2000)

	// Filters: lie kind per height, for this peer's whole filter universe.
	CFLies map[int32]int
	// CFCheckptLieAt > 0: additionally the cfcheckpt list (only) is wrong at
	// that checkpoint index (1-based), while cfheaders are as per CFLies.
	CFCheckptLieAt int
	// CFSurplus > 0: cfheaders answers carry this many extra (made-up)
	// filter hashes after the ones asked for.
	CFSurplus int
	// CFCheckptHonest: the checkpoint list is the true one although the
	// cfheaders lie (a batch answer then fails its checkpoint).
	CFCheckptHonest bool
	// NoCF: does not answer any filter-related request.
	NoCF bool

	// Blocks.
	BlockLie    map[chainhash.Hash]int
	BlockLieAll int // applies to every block request when != 0

	// Tx relay: what to do with a tx inv from the client.
	// ForeignReject: after asking for a transaction the node also sends a
	// reject naming a different transaction.
	ForeignReject bool
	TxMode        int // 0 getdata then accept silently, 1 getdata then reject, 2 ignore inv, 3 reject without getdata
	RejectCode    wire.RejectCode
	RejectReason  string
}

func (b *Behaviour) honest() bool {
	return len(b.CFLies) == 0 && b.CFCheckptLieAt == 0 && len(b.BlockLie) == 0 && b.BlockLieAll == 0
}

// SimPeer is one simulated full node.
type SimPeer struct {
	w    *World
	idx  int
	addr *net.TCPAddr
	// view is the tip of the chain this node serves.
	view      *chainmodel.Block
	pastViews []*chainmodel.Block
	// claimHeight, if > 0, is advertised instead of view.Height.
	claimHeight int32
	services    wire.ServiceFlag
	timeSkew    time.Duration
	beh         *Behaviour
	role        string // "honest", "lagging", "header-liar", "cf-liar", ...

	conn   *simConn
	par    *parser
	shook  bool
	recvd  int
	silent bool
	// wire log for oracles
	gotGetHeaders int
	gotGetData    []chainhash.Hash
	txInvSeen     map[chainhash.Hash]int
	txGot         map[chainhash.Hash]int
	txGetDataSent map[chainhash.Hash]int
	txRejectSent  map[chainhash.Hash]int
	sessions      int
	// hdrTipsSent: hash of the last header of every non-empty headers
	// message this node sent (reset by the scenario when it wants to know
	// what was offered since some moment).
	hdrTipsSent map[chainhash.Hash]bool
	// hdrOfferBase, if set: the client's tip when the current offer was made.
	hdrOfferBase *chainmodel.Block
	// liedWhenAsked: answered a getcfheaders whose range covers one of its
	// lie heights.
	liedWhenAsked bool
	// liedStops: stop blocks of the getcfheaders queries it answered with
	// a lie.
	liedStops []*chainmodel.Block
	// sentBadBlockWithHeader counts delivered block messages that carry the
	// requested header but fail the validity checks.
	sentBadBlockWithHeader int
	lastBadKind            string
	// versionDelivered: this node's version message reached the client on
	// some connection.
	versionDelivered bool
	// clientTipAtHandshake: the client's header tip height when this node's
	// latest handshake completed.
	clientTipAtHandshake int32
	handshakeAt          time.Time
	// gotGetDataAt: when each entry of gotGetData arrived.
	gotGetDataAt []time.Time
	// servedOK: block requests answered with the true block.
	servedOK int
	// clientCuts: established connections to this node that the client
	// closed on its own.
	clientCuts int
	// cfAsked: heights for which the client asked this node for filter
	// headers and the answer reached the client's connection (an answer
	// lost with a connection the client itself had closed meanwhile does
	// not make this node one of the responders).
	cfAsked map[int32]bool
	// cfAnsweredStops: stop blocks of the filter-header queries this node's
	// answer reached the client for.
	cfAnsweredStops map[chainhash.Hash]bool

	fhCache map[chainhash.Hash]chainhash.Hash // block hash -> this node's filter header
	ffCache map[chainhash.Hash]*gcs.Filter
}

func (p *SimPeer) String() string { return p.addr.String() }

// setUp makes the node reachable or unreachable for new connections.
func (p *SimPeer) setUp(up bool) { p.w.net.setUp(p.addr.String(), up) }

func (p *SimPeer) attach(c *simConn) {
	p.conn = c
	p.par = &parser{bnet: p.w.net.bnet}
	p.shook = false
	p.recvd = 0
	p.silent = false
	p.sessions++
}

// setView moves the node to another tip. Like a real full node it keeps the
// blocks of chains it was on before and still serves their data by hash.
func (p *SimPeer) setView(b *chainmodel.Block) {
	if p.view != nil && p.view != b && !p.view.IsAncestorOf(b) {
		p.pastViews = append(p.pastViews, p.view)
	}
	p.view = b
	p.fhCache = nil
}

// knows returns the block with hash h if it is on the node's chain or on a
// chain it was on earlier.
func (p *SimPeer) knows(h chainhash.Hash) *chainmodel.Block {
	blk, ok := p.w.tree.ByHash[h]
	if !ok {
		return nil
	}
	if blk.IsAncestorOf(p.view) {
		return blk
	}
	for _, v := range p.pastViews {
		if blk.IsAncestorOf(v) {
			return blk
		}
	}
	return nil
}

// connected reports whether the node currently has a live connection.
func (p *SimPeer) connected() bool { return p.conn != nil && !p.conn.dead() }

// send schedules one message to the client according to the behaviour.
func (p *SimPeer) send(msg wire.Message) { p.sendOpt(msg, false) }

func (p *SimPeer) sendOpt(msg wire.Message, reliable bool) { p.sendWith(msg, reliable, nil) }

// sendWith is sendOpt with a callback that runs when (and only if) the message
// is actually handed to the client.
func (p *SimPeer) sendWith(msg wire.Message, reliable bool, delivered func()) {
	c := p.conn
	if c == nil || c.dead() || (p.silent && !reliable) {
		return
	}
	w := p.w
	if w.freeRun {
		c.deliver(encodeMsg(msg, w.net.bnet, wire.WitnessEncoding))
		if delivered != nil {
			delivered()
		}
		return
	}
	b := p.beh
	if !reliable && b.DropPct > 0 && w.tp.Chance(b.DropPct, 100) {
		w.rc.Fault("net.drop")
		return
	}
	d := b.BaseLatency
	if b.Jitter > 0 {
		d += time.Duration(w.tp.Intn(16)) * b.Jitter / 16
	}
	if !reliable && b.StallPct > 0 && w.tp.Chance(b.StallPct, 100) {
		w.rc.Fault("net.stall")
		d += b.StallFor
	}
	raw := encodeMsg(msg, w.net.bnet, wire.WitnessEncoding)
	cmd := msg.Command()
	d = c.fifo(d)
	w.after(d, func() {
		if c.dead() {
			return
		}
		w.rc.Logf("t=%s %s -> client: %s", w.clock(), p.addr.IP, describe(msg))
		c.deliver(raw)
		if delivered != nil {
			delivered()
		}
	})
	if !reliable && b.DupPct > 0 && w.tp.Chance(b.DupPct, 100) {
		w.rc.Fault("net.dup")
		w.after(c.fifo(d+time.Duration(1+w.tp.Intn(50))*time.Millisecond), func() {
			if c.dead() {
				return
			}
			w.rc.Logf("t=%s %s -> client: %s (duplicate)", w.clock(), p.addr.IP, cmd)
			c.deliver(raw)
		})
	}
}

// sendRaw schedules raw bytes (garbage, partial messages).
func (p *SimPeer) sendRaw(raw []byte, d time.Duration, what string) {
	c := p.conn
	if c == nil || c.dead() {
		return
	}
	p.w.after(c.fifo(d), func() {
		if c.dead() {
			return
		}
		p.w.rc.Logf("t=%s %s -> client: %s", p.w.clock(), p.addr.IP, what)
		c.deliver(raw)
	})
}

// disconnect closes the node's end.
func (p *SimPeer) disconnect(why string) {
	if p.conn != nil && !p.conn.dead() {
		p.w.rc.Logf("t=%s %s closes connection (%s)", p.w.clock(), p.addr.IP, why)
		p.conn.closeRemote()
	}
}

func (p *SimPeer) height() int32 {
	if p.claimHeight > 0 {
		return p.claimHeight
	}
	return p.view.Height
}

// handle processes one message from the client.
func (p *SimPeer) handle(msg wire.Message) {
	w := p.w
	p.recvd++
	b := p.beh
	if b.CloseAfter > 0 && p.recvd > b.CloseAfter {
		w.rc.Fault("net.close")
		p.disconnect("behaviour: close after N messages")
		return
	}
	if b.SilentAfter > 0 && p.recvd > b.SilentAfter && !p.silent {
		w.rc.Fault("net.silent")
		p.silent = true
	}
	switch m := msg.(type) {
	case *wire.MsgVersion:
		if b.HandshakeDrops > 0 {
			// The connection dies in the middle of the handshake (the
			// client's version has arrived, ours is never sent).
			b.HandshakeDrops--
			w.rc.Fault("net.handshake-drop")
			p.disconnect("during the handshake")
			return
		}
		me := wire.NewNetAddressIPPort(p.addr.IP, uint16(p.addr.Port), p.services)
		you := wire.NewNetAddressIPPort(net.IPv4(10, 9, 9, 9), 0, 0)
		v := wire.NewMsgVersion(me, you, uint64(0x1000+p.idx*7919+p.sessions), p.height())
		v.Services = p.services
		v.ProtocolVersion = int32(wire.AddrV2Version)
		v.Timestamp = time.Unix(time.Now().Add(p.timeSkew).Unix(), 0)
		v.UserAgent = fmt.Sprintf("/verifsim:%d/", p.idx)
		p.sendWith(v, true, func() { p.versionDelivered = true })
		p.sendOpt(wire.NewMsgSendAddrV2(), true)
		p.sendOpt(wire.NewMsgVerAck(), true)
	case *wire.MsgVerAck:
		p.shook = true
		// What the client had stored when this node's handshake completed
		// (simulator goroutine, quiescent point).
		if p.w.cs != nil && !p.w.freeRun && p.w.running {
			if _, h, err := p.w.cs.BlockHeaders.ChainTip(); err == nil {
				p.clientTipAtHandshake = int32(h)
				p.handshakeAt = time.Now()
			}
		}
		if b.AnnounceTx {
			inv := wire.NewMsgInv()
			h := chainhash.DoubleHashH([]byte(fmt.Sprintf("tx-from-%d", p.idx)))
			inv.AddInvVect(wire.NewInvVect(wire.InvTypeTx, &h))
			p.send(inv)
		}
	case *wire.MsgPing:
		if !b.NoPong {
			p.send(wire.NewMsgPong(m.Nonce))
		}
	case *wire.MsgGetHeaders:
		p.gotGetHeaders++
		p.onGetHeaders(m)
	case *wire.MsgGetCFCheckpt:
		if !b.NoCF {
			p.onGetCFCheckpt(m)
		}
	case *wire.MsgGetCFHeaders:
		if !b.NoCF {
			p.onGetCFHeaders(m)
		}
	case *wire.MsgGetCFilters:
		if !b.NoCF {
			p.onGetCFilters(m)
		}
	case *wire.MsgGetData:
		p.onGetData(m)
	case *wire.MsgInv:
		p.onInv(m)
	case *wire.MsgTx:
		p.onTx(m)
	default:
		// sendheaders, getaddr, feefilter, sendaddrv2, ...: ignored.
	}
}

// locate returns the first block of locator that lies on this node's chain
// (genesis if none does).
func (p *SimPeer) locate(locator []*chainhash.Hash) *chainmodel.Block {
	for _, h := range locator {
		if blk, ok := p.w.tree.ByHash[*h]; ok && blk.IsAncestorOf(p.view) {
			return blk
		}
	}
	return p.w.tree.Genesis
}

func (p *SimPeer) onGetHeaders(m *wire.MsgGetHeaders) {
	from := p.locate(m.BlockLocatorHashes)
	max := p.beh.MaxHeaders
	if max <= 0 {
		max = wire.MaxBlockHeadersPerMsg
	}
	chain := p.view.Chain()
	out := wire.NewMsgHeaders()
	for h := from.Height + 1; h <= p.view.Height && len(out.Headers) < max; h++ {
		hdr := chain[h].Hdr
		out.AddBlockHeader(&hdr)
		if chain[h].Hash == m.HashStop {
			break
		}
	}
	// A real node answers with an empty headers message when it has nothing.
	p.noteHeaders(out)
	p.send(out)
}

func (p *SimPeer) noteHeaders(m *wire.MsgHeaders) {
	if len(m.Headers) == 0 {
		return
	}
	if last := p.w.tree.ByHash[m.Headers[len(m.Headers)-1].BlockHash()]; last != nil && last.Tainted {
		bad := last
		for bad.Broken == "" {
			bad = bad.Parent
		}
		p.w.rc.Probe("offered_headers_with_invalid_" + bad.Broken)
	}
	if p.hdrTipsSent == nil {
		p.hdrTipsSent = map[chainhash.Hash]bool{}
	}
	// Only a message whose first header builds on a block the client's
	// chain had when the offer was made hands the client a branch.
	if p.hdrOfferBase != nil {
		if b := p.w.tree.ByHash[m.Headers[0].PrevBlock]; b == nil || !b.IsAncestorOf(p.hdrOfferBase) {
			return
		}
	}
	p.hdrTipsSent[m.Headers[len(m.Headers)-1].BlockHash()] = true
}

// announce tells the client about the node's tip the way a node that was sent
// "sendheaders" may: either by inv or by an unsolicited headers message.
func (p *SimPeer) announce(useHeaders bool, n int) {
	if !p.connected() || !p.shook {
		return
	}
	if useHeaders {
		chain := p.view.Chain()
		out := wire.NewMsgHeaders()
		start := int(p.view.Height) - n + 1
		if start < 1 {
			start = 1
		}
		for h := start; h <= int(p.view.Height); h++ {
			hdr := chain[h].Hdr
			out.AddBlockHeader(&hdr)
		}
		p.noteHeaders(out)
		p.send(out)
		return
	}
	inv := wire.NewMsgInv()
	h := p.view.Hash
	inv.AddInvVect(wire.NewInvVect(wire.InvTypeBlock, &h))
	p.send(inv)
}

// ---- filters ----

func (p *SimPeer) lieAt(b *chainmodel.Block) int {
	if p.beh.CFLies == nil {
		return lieNone
	}
	return p.beh.CFLies[b.Height]
}

// filterFor returns the filter this node claims for block b (nil when it only
// lies about the hash) and the filter hash it advertises.
func (p *SimPeer) filterFor(b *chainmodel.Block) (*gcs.Filter, chainhash.Hash) {
	t := p.w.tree
	honest, honestHash, _ := t.Filter(b)
	kind := p.lieAt(b)
	if b.Height == 0 {
		kind = lieNone
	}
	switch kind {
	case lieNone:
		return honest, honestHash
	case lieHashOnly, lieNoServe:
		fake := chainhash.DoubleHashH(append([]byte(fmt.Sprintf("fakehash-%d-", p.idx)), honestHash[:]...))
		return honest, fake
	}
	if f, ok := p.ffCache[b.Hash]; ok {
		fh, _ := builder.GetFilterHash(f)
		return f, fh
	}
	// Rebuild the entry list the way BIP158 says, then tamper with it.
	var entries [][]byte
	seen := map[string]bool{}
	add := func(s []byte) {
		if len(s) == 0 || seen[string(s)] {
			return
		}
		seen[string(s)] = true
		entries = append(entries, s)
	}
	var opret []byte
	var victim []byte
	for ti, tx := range b.Msg.Transactions {
		for _, o := range tx.TxOut {
			if len(o.PkScript) > 0 && o.PkScript[0] == txscript.OP_RETURN {
				if ti > 0 && opret == nil {
					opret = o.PkScript
				}
				continue
			}
			if ti > 0 && (victim == nil || chainmodel.IsOddScript(o.PkScript)) {
				// (an output whose script does not parse is the preferred
				// one to leave out: a verifier that takes "cannot be
				// spent" for "is not in the filter" lets that pass)
				victim = o.PkScript
			}
			add(o.PkScript)
		}
	}
	for _, s := range b.PrevScripts {
		add(s)
	}
	switch kind {
	case lieOmit:
		if victim == nil {
			// Nothing provable to omit in this block: fall back to a
			// hash-only lie.
			fake := chainhash.DoubleHashH(append([]byte("fakehash-"), honestHash[:]...))
			return honest, fake
		}
		var kept [][]byte
		for _, e := range entries {
			if string(e) != string(victim) {
				kept = append(kept, e)
			}
		}
		// Make sure an empty filter does not result.
		kept = append(kept, []byte(fmt.Sprintf("pad-%d", p.idx)))
		entries = kept
	case lieExtra:
		entries = append(entries, []byte(fmt.Sprintf("extra-element-%d", p.idx)))
	case lieOpReturn:
		if opret == nil {
			entries = append(entries, []byte(fmt.Sprintf("extra-element-%d", p.idx)))
		} else {
			entries = append(entries, opret)
		}
	}
	f, err := builder.WithKeyHash(&b.Hash).AddEntries(entries).Build()
	if err != nil {
		panic(err)
	}
	if p.ffCache == nil {
		p.ffCache = map[chainhash.Hash]*gcs.Filter{}
	}
	p.ffCache[b.Hash] = f
	fh, _ := builder.GetFilterHash(f)
	return f, fh
}

// filterHeader is this node's filter header for block b (chains its own
// filter hashes, so one lie changes every later header).
func (p *SimPeer) filterHeader(b *chainmodel.Block) chainhash.Hash {
	if len(p.beh.CFLies) == 0 {
		return p.w.tree.FilterHeader(b)
	}
	if p.fhCache == nil {
		p.fhCache = map[chainhash.Hash]chainhash.Hash{}
	}
	if h, ok := p.fhCache[b.Hash]; ok {
		return h
	}
	var stack []*chainmodel.Block
	for n := b; n != nil; n = n.Parent {
		if _, ok := p.fhCache[n.Hash]; ok {
			break
		}
		stack = append(stack, n)
	}
	for i := len(stack) - 1; i >= 0; i-- {
		n := stack[i]
		var prev chainhash.Hash
		if n.Parent != nil {
			prev = p.fhCache[n.Parent.Hash]
		}
		_, fh := p.filterFor(n)
		p.fhCache[n.Hash] = chainhash.DoubleHashH(append(fh[:], prev[:]...))
	}
	return p.fhCache[b.Hash]
}

// onChain returns the block with hash h if it is on this node's chain.
func (p *SimPeer) onChain(h chainhash.Hash) *chainmodel.Block {
	blk, ok := p.w.tree.ByHash[h]
	if !ok || !blk.IsAncestorOf(p.view) {
		return nil
	}
	return blk
}

func (p *SimPeer) onGetCFCheckpt(m *wire.MsgGetCFCheckpt) {
	stop := p.knows(m.StopHash)
	if stop == nil || m.FilterType != wire.GCSFilterRegular {
		return // a node that does not know the block does not answer
	}
	chain := stop.Chain()
	n := int(stop.Height) / wire.CFCheckptInterval
	out := wire.NewMsgCFCheckpt(m.FilterType, &m.StopHash, n)
	for i := 1; i <= n; i++ {
		h := p.filterHeader(chain[i*wire.CFCheckptInterval])
		if p.beh.CFCheckptHonest {
			h = p.w.tree.FilterHeader(chain[i*wire.CFCheckptInterval])
		}
		if p.beh.CFCheckptLieAt == i {
			h = chainhash.DoubleHashH(append([]byte("fake-checkpoint"), h[:]...))
		}
		hh := h
		out.AddCFHeader(&hh)
	}
	p.send(out)
}

func (p *SimPeer) onGetCFHeaders(m *wire.MsgGetCFHeaders) {
	stop := p.knows(m.StopHash)
	if stop == nil || m.FilterType != wire.GCSFilterRegular || int32(m.StartHeight) > stop.Height ||
		stop.Height-int32(m.StartHeight) >= wire.MaxCFHeadersPerMsg {
		return
	}
	chain := stop.Chain()
	out := wire.NewMsgCFHeaders()
	out.FilterType = m.FilterType
	out.StopHash = m.StopHash
	prevLie := false
	if m.StartHeight > 0 {
		out.PrevFilterHeader = p.filterHeader(chain[m.StartHeight-1])
		// An answer built on a false previous filter header is as
		// provably false as one with a false hash inside.
		prevLie = out.PrevFilterHeader != p.w.tree.FilterHeader(chain[m.StartHeight-1])
	}
	if p.cfAsked == nil {
		p.cfAsked = map[int32]bool{}
	}
	lied := prevLie
	from, to := int32(m.StartHeight), stop.Height
	for h := from; h <= to; h++ {
		if p.lieAt(chain[h]) != lieNone {
			lied = true
		}
		_, fh := p.filterFor(chain[h])
		hh := fh
		out.AddCFHash(&hh)
	}
	for i := 0; i < p.beh.CFSurplus; i++ {
		hh := chainhash.DoubleHashH([]byte(fmt.Sprintf("surplus-%d-%d-%d", p.idx, stop.Height, i)))
		out.AddCFHash(&hh)
	}
	p.sendWith(out, false, func() {
		// (delivered: the answer reached the client's connection)
		for h := from; h <= to; h++ {
			p.cfAsked[h] = true
		}
		if p.cfAnsweredStops == nil {
			p.cfAnsweredStops = map[chainhash.Hash]bool{}
		}
		p.cfAnsweredStops[stop.Hash] = true
		if lied {
			p.liedWhenAsked = true
			p.liedStops = append(p.liedStops, stop)
		}
	})
}

func (p *SimPeer) onGetCFilters(m *wire.MsgGetCFilters) {
	stop := p.knows(m.StopHash)
	if stop == nil || m.FilterType != wire.GCSFilterRegular || int32(m.StartHeight) > stop.Height ||
		stop.Height-int32(m.StartHeight) >= wire.MaxGetCFiltersReqRange {
		return
	}
	chain := stop.Chain()
	for h := int32(m.StartHeight); h <= stop.Height; h++ {
		b := chain[h]
		if p.lieAt(b) == lieNoServe {
			continue
		}
		f, _ := p.filterFor(b)
		data, err := f.NBytes()
		if err != nil {
			panic(err)
		}
		bh := b.Hash
		msg := wire.NewMsgCFilter(m.FilterType, &bh, data)
		if p.w.cfilterTamper != nil {
			for _, mm := range p.w.cfilterTamper(p, b, msg) {
				p.send(mm)
			}
			continue
		}
		p.send(msg)
	}
}

// ---- blocks and transactions ----

func (p *SimPeer) onGetData(m *wire.MsgGetData) {
	for _, iv := range m.InvList {
		switch iv.Type {
		case wire.InvTypeBlock, wire.InvTypeWitnessBlock:
			p.gotGetData = append(p.gotGetData, iv.Hash)
			p.gotGetDataAt = append(p.gotGetDataAt, time.Now())
			p.serveBlock(iv.Hash)
		case wire.InvTypeTx, wire.InvTypeWitnessTx:
			// The client never has our transactions; ignore.
		}
	}
}

func cloneBlock(b *wire.MsgBlock) *wire.MsgBlock {
	c := &wire.MsgBlock{Header: b.Header}
	for _, tx := range b.Transactions {
		c.Transactions = append(c.Transactions, tx.Copy())
	}
	return c
}

func (p *SimPeer) serveBlock(h chainhash.Hash) {
	blk := p.knows(h)
	if blk == nil {
		nf := wire.NewMsgNotFound()
		nf.AddInvVect(wire.NewInvVect(wire.InvTypeBlock, &h))
		p.send(nf)
		return
	}
	kind := p.beh.BlockLieAll
	if k, ok := p.beh.BlockLie[h]; ok {
		kind = k
	}
	if kind != blkHonest && !p.w.freeRun {
		p.w.rc.Fault("block." + blkNames[kind])
	}
	msg := cloneBlock(blk.Msg)
	nonCB := len(msg.Transactions) > 1
	switch kind {
	case blkHonest:
		p.servedOK++
	case blkSilent:
		return
	case blkStream:
		other := blk.Parent
		if other == nil || other.Height == 0 {
			other = p.view
		}
		if other.Hash == h {
			return
		}
		c := p.conn
		for k := 1; k <= 100; k++ {
			om := cloneBlock(other.Msg)
			p.w.after(time.Duration(k)*400*time.Millisecond, func() {
				if p.conn == c && c != nil && !c.dead() {
					p.send(om)
				}
			})
		}
		return
	case blkOther:
		other := blk.Parent
		if other == nil || other.Height == 0 {
			other = p.view
		}
		if other.Hash == h {
			return
		}
		msg = cloneBlock(other.Msg)
	case blkMutatedTx:
		t := msg.Transactions[len(msg.Transactions)-1]
		t.TxOut[0].Value++
	case blkExtraTx:
		extra := msg.Transactions[len(msg.Transactions)-1].Copy()
		extra.LockTime = 12345
		msg.Transactions = append(msg.Transactions, extra)
	case blkRemovedTx:
		if nonCB {
			msg.Transactions = msg.Transactions[:len(msg.Transactions)-1]
		} else {
			msg.Transactions[0].TxOut[0].Value++
		}
	case blkDupTx:
		msg.Transactions = append(msg.Transactions, msg.Transactions[len(msg.Transactions)-1].Copy())
	case blkStripWitness:
		if nonCB {
			for _, t := range msg.Transactions[1:] {
				for _, in := range t.TxIn {
					in.Witness = nil
				}
			}
		} else {
			// A block without any witness data needs no commitment: that
			// would be a valid block. Forge the commitment nonce instead.
			msg.Transactions[0].TxIn[0].Witness = wire.TxWitness{append(make([]byte, 31), 3)}
		}
	case blkForgedCommit:
		// Change the coinbase witness nonce: txids unchanged, the
		// commitment no longer matches.
		msg.Transactions[0].TxIn[0].Witness = wire.TxWitness{append(make([]byte, 31), 1)}
	case blkBadWitness:
		if nonCB {
			wit := msg.Transactions[1].TxIn[0].Witness
			w0 := append([]byte(nil), wit[0]...)
			w0[0] ^= 0xff
			msg.Transactions[1].TxIn[0].Witness = wire.TxWitness{w0, wit[1]}
		} else {
			msg.Transactions[0].TxIn[0].Witness = wire.TxWitness{append(make([]byte, 31), 2)}
		}
	}
	bad := kind != blkHonest && kind != blkOther
	p.sendWith(msg, false, func() {
		if bad {
			p.sentBadBlockWithHeader++
			p.lastBadKind = blkNames[kind]
		}
	})
}

func (p *SimPeer) noteTx(m *map[chainhash.Hash]int, h chainhash.Hash) {
	if *m == nil {
		*m = map[chainhash.Hash]int{}
	}
	(*m)[h]++
}

func (p *SimPeer) sendReject(h chainhash.Hash) {
	n := 1
	if p.w.txRejectRepeat != nil {
		n = p.w.txRejectRepeat(p)
	}
	for i := 0; i < n; i++ {
		rej := wire.NewMsgReject(wire.CmdTx, p.beh.RejectCode, p.beh.RejectReason)
		rej.Hash = h
		p.noteTx(&p.txRejectSent, h)
		p.send(rej)
	}
}

func (p *SimPeer) onInv(m *wire.MsgInv) {
	for _, iv := range m.InvList {
		if iv.Type != wire.InvTypeTx && iv.Type != wire.InvTypeWitnessTx {
			continue
		}
		p.noteTx(&p.txInvSeen, iv.Hash)
		mode := p.beh.TxMode
		if p.w.txMode != nil {
			mode = p.w.txMode(p, iv.Hash)
		}
		switch mode {
		case 0, 1:
			gd := wire.NewMsgGetData()
			gd.AddInvVect(wire.NewInvVect(iv.Type, &iv.Hash))
			p.noteTx(&p.txGetDataSent, iv.Hash)
			p.send(gd)
			if p.beh.ForeignReject {
				// a reject that names some other transaction (e.g. one
				// being rebroadcast at the same time): says nothing about
				// this one
				other := chainhash.DoubleHashH(append([]byte("some-other-tx"), iv.Hash[:]...))
				rej := wire.NewMsgReject(wire.CmdTx, p.beh.RejectCode, p.beh.RejectReason)
				rej.Hash = other
				p.w.rc.Fault("tx.reject-for-another-tx")
				p.send(rej)
			}
		case 2:
		case 3:
			p.sendReject(iv.Hash)
		}
	}
}

func (p *SimPeer) onTx(m *wire.MsgTx) {
	h := m.TxHash()
	p.noteTx(&p.txGot, h)
	mode := p.beh.TxMode
	if p.w.txMode != nil {
		mode = p.w.txMode(p, h)
	}
	if mode == 1 {
		p.sendReject(h)
	}
}

func describe(msg wire.Message) string {
	switch m := msg.(type) {
	case *wire.MsgHeaders:
		if len(m.Headers) == 0 {
			return "headers(0)"
		}
		return fmt.Sprintf("headers(%d first=%s)", len(m.Headers), short(m.Headers[0].BlockHash()))
	case *wire.MsgGetHeaders:
		l := ""
		if len(m.BlockLocatorHashes) > 0 {
			l = short(*m.BlockLocatorHashes[0])
		}
		return fmt.Sprintf("getheaders(loc0=%s n=%d stop=%s)", l, len(m.BlockLocatorHashes), short(m.HashStop))
	case *wire.MsgInv:
		if len(m.InvList) > 0 {
			return fmt.Sprintf("inv(%d %s %s)", len(m.InvList), m.InvList[0].Type, short(m.InvList[0].Hash))
		}
	case *wire.MsgGetCFHeaders:
		return fmt.Sprintf("getcfheaders(start=%d stop=%s)", m.StartHeight, short(m.StopHash))
	case *wire.MsgCFHeaders:
		return fmt.Sprintf("cfheaders(n=%d stop=%s prev=%s)", len(m.FilterHashes), short(m.StopHash), short(m.PrevFilterHeader))
	case *wire.MsgGetCFilters:
		return fmt.Sprintf("getcfilters(start=%d stop=%s)", m.StartHeight, short(m.StopHash))
	case *wire.MsgCFilter:
		return fmt.Sprintf("cfilter(block=%s len=%d)", short(m.BlockHash), len(m.Data))
	case *wire.MsgGetCFCheckpt:
		return fmt.Sprintf("getcfcheckpt(stop=%s)", short(m.StopHash))
	case *wire.MsgCFCheckpt:
		return fmt.Sprintf("cfcheckpt(n=%d)", len(m.FilterHeaders))
	case *wire.MsgGetData:
		if len(m.InvList) > 0 {
			return fmt.Sprintf("getdata(%s %s)", m.InvList[0].Type, short(m.InvList[0].Hash))
		}
	case *wire.MsgBlock:
		return fmt.Sprintf("block(%s txs=%d)", short(m.BlockHash()), len(m.Transactions))
	case *wire.MsgReject:
		return fmt.Sprintf("reject(%s %q)", m.Code, m.Reason)
	}
	return msg.Command()
}

func short(h chainhash.Hash) string { return h.String()[:8] }
