package e1

import (
	"fmt"
	"testing"
	"time"

	"github.com/btcsuite/btcd/chainhash/v2"
	"github.com/btcsuite/btcd/wire/v2"
	"github.com/lightninglabs/neutrino/chainsync"

	"verif/sim/chainmodel"
	"verif/sim/core"
)

// isLongRun: one run in 40 (thorough: one in 6) of the filter-header
// scenarios uses a chain of more than 1000 blocks, which is what it takes to
// reach the checkpointed filter-header path (cfcheckpt from all peers,
// checkpoint conflict resolution, batched cfheaders verified against the
// checkpoints, hard-coded filter-header checkpoints). Derived from the seed
// rather than drawn, so that the tapes of the short scenario keep their
// meaning.
func isLongRun(rc *core.RunCtx) bool {
	if rc.Tier == "thorough" {
		return rc.Seed%6 == 5
	}
	return rc.Seed%40 == 7
}

// runLongFilters is the long-chain variant of runFilters (subjects C03, C19,
// C04).
func runLongFilters(t *testing.T, rc *core.RunCtx) {
	tp := rc.Tape
	params := chainmodel.NewParams(chainmodel.ParamOpts{})
	w := newWorld(t, rc, params)
	n := 1000 + tp.Intn(1500)
	if tp.Chance(1, 3) {
		n = []int{1000, 1001, 1999, 2000, 2001}[tp.Intn(5)] // interval edges
	}
	plan := &chainPlan{}
	tipTime := w.epoch.Add(-time.Duration(1+tp.Intn(30)) * time.Minute)
	plan.main = w.mineChain(w.tree.Genesis, n, time.Minute, tipTime, 0, "", &plan.salt, 8)
	chain := plan.main.Chain()
	w.tree.Filter(plan.main)

	// Hard-coded filter-header checkpoints of the simulated network (hook
	// H4): the true header at 1000 (and 2000).
	hard := tp.Chance(1, 2)
	cps := map[uint32]*chainhash.Hash{}
	if hard {
		for h := 1000; h <= n; h += 1000 {
			fh := w.tree.FilterHeader(chain[h])
			cps[uint32(h)] = &fh
		}
		chainsync.VerifSetFilterHeaderCheckpoints(params.Net, cps)
	} else {
		chainsync.VerifSetFilterHeaderCheckpoints(params.Net, nil)
	}
	defer chainsync.VerifSetFilterHeaderCheckpoints(params.Net, nil)

	provableOnly := tp.Chance(3, 4)
	// "batch liar" runs: most nodes serve the true checkpoint list but lie in
	// the cfheaders batches below a checkpoint, so that the batches handed
	// out by the work manager mostly land on liars and only the per-batch
	// checkpoint verification stands between them and the store.
	batchLiars := tp.Chance(1, 3)
	nPeers := 1 + tp.Intn(4)
	if batchLiars {
		nPeers = 3 + tp.Intn(2)
		provableOnly = true
	}
	hb := &Behaviour{BaseLatency: 5 * time.Millisecond}
	if batchLiars {
		// headers trickle in, so that everybody is connected by the time the
		// filter-header sync starts
		hb.MaxHeaders = 100 + tp.Intn(100)
	}
	w.addPeer("honest", plan.main, hb)
	nLiars := 0
	for i := 1; i < nPeers; i++ {
		beh := &Behaviour{BaseLatency: time.Duration(60+tp.Intn(300)) * time.Millisecond, Jitter: 40 * time.Millisecond}
		if batchLiars {
			beh = &Behaviour{BaseLatency: time.Duration(6+tp.Intn(20)) * time.Millisecond, MaxHeaders: 100 + tp.Intn(100)}
		}
		role := "honest"
		view := plan.main
		k := tp.Intn(100)
		if batchLiars && k < 85 {
			k = 0
		}
		switch {
		case k < 45:
			role = "cf-liar"
			nLiars++
			h := int32(1 + tp.Intn(n))
			switch tp.Intn(3) {
			case 0:
				h = int32(1000*(1+tp.Intn(n/1000)) - tp.Intn(3)) // just below / on a checkpoint height
			case 1:
				h = int32(n - tp.Intn(40)) // in the uncheckpointed tail
			}
			if h < 1 {
				h = 1
			}
			kind := 1 + tp.Intn(3)
			if !provableOnly && tp.Chance(1, 2) {
				kind = lieExtra + tp.Intn(2)
			}
			beh.CFLies = map[int32]int{h: kind}
			sub := tp.Intn(4)
			if batchLiars {
				sub = 1
			}
			switch sub {
			case 0:
				beh.CFLies = nil
				beh.CFCheckptLieAt = 1 + tp.Intn(n/1000) // only the checkpoint list is wrong
			case 1:
				// true checkpoint list, lying cfheaders below a checkpoint:
				// only the per-batch checkpoint verification can catch it
				beh.CFLies = map[int32]int{int32(1 + tp.Intn(1000*(n/1000))): kind}
				beh.CFCheckptHonest = true
			}
		case k < 55:
			role = "no-cf"
			beh.NoCF = true
		case k < 65:
			role = "lagging"
			view = plan.main.Ancestor(int32(tp.Intn(n + 1)))
		case k < 75:
			role = "flaky"
			beh.DropPct = 10 + tp.Intn(30)
			beh.DupPct = tp.Intn(30)
		}
		if tp.Chance(1, 3) {
			beh.MaxHeaders = 300 + tp.Intn(900)
		}
		p := w.addPeer(role, view, beh)
		rc.Logf("node %s role=%s view=%d lies=%v checkptlie=%d", p.addr.IP, role, view.Height, liesString(beh.CFLies), beh.CFCheckptLieAt)
	}
	rc.Logf("LONG main chain %d blocks nodes=%d liars=%d provableOnly=%v hard-coded-checkpoints=%v", n, nPeers, nLiars, provableOnly, hard)

	if err := w.startClient(nil); err != nil {
		rc.Infra("start client: %v", err)
	}
	wt := w.newWatcher(rc.Prop)
	wt.fullEvery = 1 << 30
	sw := &subWatch{w: w, wt: wt, check: rc.Prop == "C19"}
	w.observers = append(w.observers, func() {
		if w.running {
			sw.drain()
		}
	})
	wt.onView = func(prev, cur *storeView) {
		sw.drain()
		sw.compare(cur)
	}
	defer func() {
		for _, s := range sw.subs {
			if !s.closed {
				go s.sub.Cancel()
			}
		}
		if !w.shutdown(10 * time.Minute) {
			rc.Probe("cleanup_stop_did_not_return")
		}
	}()
	sw.open(0)

	// The value clause needs the honest node's checkpoint list among those
	// the client compared: it must be connected when the first getcfcheckpt
	// goes out, and stay.
	honestInTime := false
	sawCheckpt := false
	w.onClientMsg = func(p *SimPeer, m wire.Message) {
		if _, ok := m.(*wire.MsgGetCFCheckpt); ok && !sawCheckpt {
			sawCheckpt = true
			honestInTime = w.peers[0].shook && w.peers[0].connected()
		}
	}
	wt.cfValue = provableOnly && rc.Prop == "C03"
	// cpReorg: an honest reorganisation replaced the block at a checkpoint
	// height (a multiple of 1000): checkpoints the client fetched before
	// and filter headers it fetches after belong to different chains.
	cpReorg := false
	w.observers = append(w.observers, func() {
		if wt.cfValue && sawCheckpt && (!honestInTime || w.peers[0].sessions > 1 || !w.peers[0].connected()) {
			if honestInTime && w.cs.IsBanned(w.peers[0].addr.String()) {
				rc.Failf("honest-node-banned", map[string]string{"liars": fmt.Sprint(nLiars > 0), "long": "true", "checkpoint_block_reorganised": fmt.Sprint(cpReorg)},
					"the client banned the honest, reliable node %s (long chain, checkpointed filter-header sync)", w.peers[0].addr.IP)
			}
			wt.cfValue = false
			rc.Probe("value_clause_dropped_honest_node_lost")
		}
	})

	honestTip := plan.main
	// A chain that ends just above a checkpoint interval, no hard-coded
	// checkpoints: while the filter-header goroutine holds a checkpointed
	// answer it is about to write (hook H7, outside the writers' critical
	// section), the honest side reorganises deep enough to replace the
	// interval's last block, the stop block of that answer.
	if !hard && n >= 1000 && n%1000 <= 3 && tp.Chance(1, 2) {
		w.armYield("cfheaders.batchReceived", 1+tp.Intn(2), time.Duration(500+tp.Intn(3000))*time.Millisecond)
		kicked := false
		w.onParked = func(site string) {
			if site != "cfheaders.batchReceived" || kicked {
				return
			}
			kicked = true
			depth := int(honestTip.Height)%1000 + 1 + tp.Intn(2)
			at := honestTip.Ancestor(honestTip.Height - int32(depth))
			nt := w.mineChain(at, depth+1, time.Minute, time.Now().Add(-5*time.Second), 0, "", &plan.salt, 30)
			if nt.CumWork.Cmp(honestTip.CumWork) <= 0 {
				return
			}
			rc.Logf("t=%s honest chain reorganises %d deep to %d while a checkpointed filter-header answer waits to be written", w.clock(), depth, nt.Height)
			rc.Probe("long_reorg_replaces_stop_block_of_batch_in_flight")
			if at.Height < honestTip.Height/1000*1000 {
				cpReorg = true
			}
			honestTip = nt
			for _, p := range w.peers {
				if p.role != "lagging" {
					p.setView(honestTip)
					p.announce(false, 1)
				}
			}
		}
	}
	nEv := tp.Intn(4)
	w.runFor(time.Duration(tp.Intn(20000))*time.Millisecond, nil)
	for i := 0; i < nEv && !w.halt; i++ {
		switch k := tp.Intn(100); {
		case k < 35:
			nb := 1 + tp.Intn(3)
			honestTip = w.mineChain(honestTip, nb, time.Minute, time.Now().Add(-time.Duration(tp.Intn(50))*time.Second), 0, "", &plan.salt, 30)
			rc.Logf("t=%s event: chain grows by %d to %d", w.clock(), nb, honestTip.Height)
			for _, p := range w.peers {
				if p.role != "lagging" {
					p.setView(honestTip)
					if p.idx == 0 || tp.Chance(1, 2) {
						p.announce(false, 1)
					}
				}
			}
		case k < 55:
			depth := 1 + tp.Intn(4)
			at := honestTip.Ancestor(honestTip.Height - int32(depth))
			// A hard-coded filter-header checkpoint fixes its block: no
			// honest reorganisation replaces a block at or below one.
			if hard && at.Height < int32(n/1000*1000) {
				continue
			}
			nt := w.mineChain(at, depth+1+tp.Intn(2), time.Minute, time.Now().Add(-time.Duration(tp.Intn(50))*time.Second), 0, "", &plan.salt, 30)
			if nt.CumWork.Cmp(honestTip.CumWork) <= 0 {
				continue
			}
			rc.Logf("t=%s event: honest chain reorganises %d deep to %d", w.clock(), depth, nt.Height)
			rc.Probe("honest_reorg_event")
			if at.Height < honestTip.Height/1000*1000 {
				cpReorg = true
			}
			honestTip = nt
			for _, p := range w.peers {
				if p.role != "lagging" {
					p.setView(honestTip)
					if p.idx == 0 || tp.Chance(1, 2) {
						p.announce(false, 1)
					}
				}
			}
		case k < 75:
			if wt.prev != nil {
				sw.open(uint32(tp.Intn(len(wt.prev.filt) + 2)))
			}
		default:
			p := w.peers[tp.Intn(len(w.peers))]
			if p.idx != 0 {
				rc.Fault("net.close")
				p.disconnect("event")
			}
		}
		w.runFor(time.Duration(tp.Intn(30000))*time.Millisecond, nil)
	}

	// Calm phase.
	for _, p := range w.peers {
		// honest nodes stay, also those that serve a shorter (valid) chain
		if p.idx == 0 || p.role == "honest" || p.role == "lagging" || (p.role == "cf-liar" && provableOnly) {
			continue
		}
		p.setUp(false)
		p.disconnect("calm phase")
	}
	w.peers[0].setView(honestTip)
	const bound = 30 * time.Minute
	atTip := func() bool {
		bs, err := w.cs.BestBlock()
		return err == nil && bs.Hash == honestTip.Hash
	}
	converged := w.runFor(bound/3, atTip)
	if !converged {
		honestTip = w.mineChain(honestTip, 1, time.Minute, time.Now().Add(-10*time.Second), 0, "", &plan.salt, 30)
		rc.Probe("calm_phase_needed_another_block")
		for _, p := range w.peers {
			if p.role != "lagging" {
				p.setView(honestTip)
			}
		}
		w.peers[0].announce(false, 1)
		converged = w.runFor(2*bound/3, atTip)
	}
	wt.check()
	sw.drain()
	sw.compare(wt.prev)
	if converged {
		rc.Probe("long_converged")
	} else {
		rc.Probe("long_not_converged")
		if rc.Prop == "C04" {
			bs, _ := w.cs.BestBlock()
			failNoConvergence(rc, w, wt, map[string]string{"long": "true"},
				"long chain: %v after faults stopped the client reports best block %d, honest tip is %d; block tip %d, filter tip %d",
				bound, bs.Height, honestTip.Height, wt.prev.tip(), len(wt.prev.filt)-1)
		}
	}
	if rc.Prop == "C03" && w.cs.IsBanned(w.peers[0].addr.String()) && (nLiars == 0 || wt.cfValue) {
		rc.Failf("honest-node-banned", map[string]string{"liars": fmt.Sprint(nLiars > 0), "long": "true", "checkpoint_block_reorganised": fmt.Sprint(cpReorg)},
			"the honest, reliable node %s is in the ban store (long chain)", w.peers[0].addr.IP)
	}
	if honestInTime {
		rc.Probe("long_honest_checkpoints_among_first_compared")
	}
	for _, p := range w.peers {
		if p.role == "cf-liar" && w.cs.IsBanned(p.addr.String()) {
			rc.Probe("long_liar_banned")
		}
	}
	if wt.cfValue {
		rc.Probe("long_value_clause_asserted_to_the_end")
	}
	if len(wt.prev.filt) > 1000 {
		rc.Probe("long_filter_headers_past_first_checkpoint")
	}
	rc.Res.Steps = w.steps
	rc.Res.Nontrivial = len(wt.prev.filt) > 1
	rc.Res.Sample = map[string]any{"long": true, "main": n, "nodes": nPeers, "liars": nLiars, "hard_coded_checkpoints": hard,
		"block_tip": wt.prev.tip(), "filter_tip": len(wt.prev.filt) - 1, "converged": converged, "subs": len(sw.subs)}
	rc.State(fmt.Sprintf("long|n=%d|liars=%d|hard=%v|conv=%v", n/500, nLiars, hard, converged))
}
