package e1

import (
	"bytes"
	"fmt"
	"sort"
	"testing"
	"testing/synctest"
	"time"

	"github.com/btcsuite/btcd/btcutil/v2"
	"github.com/btcsuite/btcd/btcutil/v2/gcs"
	"github.com/btcsuite/btcd/chainhash/v2"
	"github.com/btcsuite/btcd/wire/v2"
	"github.com/lightninglabs/neutrino"
	"github.com/lightninglabs/neutrino/filterdb"

	"verif/sim/chainmodel"
	"verif/sim/core"
)

func init() {
	core.Register("C05", func(t *testing.T, rc *core.RunCtx) { runBubble(t, rc, runAPI) })
	core.Register("C06", func(t *testing.T, rc *core.RunCtx) { runBubble(t, rc, runAPI) })
}

// cfilter tamper kinds (per response).
const (
	tfHonest = iota
	tfDrop
	tfDuplicate
	tfFlipByte       // corrupt filter data
	tfTruncate       // malformed (truncated) data
	tfOtherBlockData // data of another block's filter under this block's hash
	tfOtherBlockHash // this filter under another (in-range or out-of-range) block's hash
	tfWrongType      // another filter type
	tfUnknownHash    // a hash the client never asked about
	tfEmpty          // empty data
	tfExtraFirst     // an unsolicited filter for another block first, then the right one
	numTF
)

var tfNames = []string{"honest", "drop", "duplicate", "flip-byte", "truncate", "other-block-data", "other-block-hash",
	"wrong-type", "unknown-hash", "empty", "unsolicited-first"}

func filterBytes(f *gcs.Filter) []byte {
	b, err := f.NBytes()
	if err != nil {
		panic(err)
	}
	return b
}

// runAPI: the client syncs from honest nodes (so what it committed is true),
// then the simulator calls GetCFilter (C05) or GetBlock (C06) while the nodes
// tamper with the answers.
func runAPI(t *testing.T, rc *core.RunCtx) {
	tp := rc.Tape
	params := chainmodel.NewParams(chainmodel.ParamOpts{})
	w := newWorld(t, rc, params)
	thorough := rc.Tier == "thorough"
	maxN := 24
	if thorough {
		maxN = 120
	}
	n := tp.Range(2, maxN)
	plan := &chainPlan{}
	tipTime := w.epoch.Add(-time.Duration(1+tp.Intn(30)) * time.Minute)
	plan.main = w.mineChain(w.tree.Genesis, n, 10*time.Minute, tipTime, 0, "", &plan.salt, 80)
	chain := plan.main.Chain()

	isC05 := rc.Prop == "C05"
	// "early" runs (C05): no node answers filter-header requests, so block
	// headers are stored while no filter header beyond genesis is committed;
	// GetCFilter for such a block has nothing to verify against and must
	// fail (promptly) rather than return anything.
	early := isC05 && tp.Chance(1, 6)
	nPeers := 1 + tp.Intn(3)
	tamperPct := make([]int, nPeers)
	for i := 0; i < nPeers; i++ {
		beh := &Behaviour{BaseLatency: time.Duration(5+tp.Intn(150)) * time.Millisecond, Jitter: 30 * time.Millisecond}
		role := "honest"
		if i > 0 || tp.Chance(1, 2) {
			if isC05 {
				tamperPct[i] = []int{0, 20, 50, 90}[tp.Intn(4)]
				if tamperPct[i] > 0 {
					role = "cfilter-tamperer"
				}
			} else if tp.Chance(2, 3) {
				role = "block-liar"
				if tp.Chance(1, 2) {
					// (blkStream is not drawn: see below)
					beh.BlockLieAll = 1 + tp.Intn(numBlkKinds-2)
				} else {
					beh.BlockLie = map[chainhash.Hash]int{}
					for k := 0; k < 1+tp.Intn(3); k++ {
						b := chain[1+tp.Intn(n)]
						kind := 1 + tp.Intn(numBlkKinds-2)
						// Every silent lie about a block of even height
						// becomes a stream of other blocks instead (no
						// extra draw: earlier tapes keep their meaning).
						if kind == blkSilent && b.Height%2 == 0 {
							kind = blkStream
						}
						beh.BlockLie[b.Hash] = kind
					}
				}
			}
		}
		if early {
			beh.NoCF = true
		}
		p := w.addPeer(role, plan.main, beh)
		rc.Logf("node %s role=%s tamper=%d%% blocklie-all=%s nlies=%d", p.addr.IP, role, tamperPct[i], blkNames[beh.BlockLieAll], len(beh.BlockLie))
	}
	honestReliable := w.peers[0].role == "honest"

	tampered := map[string]int{}
	// validSent: a correct, correctly labelled cfilter for this block was sent
	// by some node at some point of the run; badSent: kinds of incorrect ones.
	validSent := map[chainhash.Hash]bool{}
	badSent := map[chainhash.Hash]string{}
	if isC05 {
		w.cfilterTamper = func(p *SimPeer, b *chainmodel.Block, msg *wire.MsgCFilter) []wire.Message {
			if tamperPct[p.idx] == 0 || !tp.Chance(tamperPct[p.idx], 100) {
				validSent[b.Hash] = true
				return []wire.Message{msg}
			}
			kind := 1 + tp.Intn(numTF-1)
			switch kind {
			case tfDuplicate, tfUnknownHash, tfExtraFirst:
				validSent[b.Hash] = true
			default:
				badSent[b.Hash] += tfNames[kind] + " "
			}
			rc.Fault("cfilter." + tfNames[kind])
			tampered[tfNames[kind]]++
			other := chain[1+tp.Intn(n)]
			of, _, _ := w.tree.Filter(other)
			switch kind {
			case tfDrop:
				return nil
			case tfDuplicate:
				return []wire.Message{msg, msg}
			case tfFlipByte:
				d := append([]byte(nil), msg.Data...)
				if len(d) > 0 {
					d[tp.Intn(len(d))] ^= byte(1 + tp.Intn(255))
				}
				return []wire.Message{wire.NewMsgCFilter(msg.FilterType, &msg.BlockHash, d)}
			case tfTruncate:
				d := msg.Data
				if len(d) > 1 {
					d = d[:1+tp.Intn(len(d)-1)]
				}
				return []wire.Message{wire.NewMsgCFilter(msg.FilterType, &msg.BlockHash, d)}
			case tfOtherBlockData:
				if other == b {
					return nil
				}
				return []wire.Message{wire.NewMsgCFilter(msg.FilterType, &msg.BlockHash, filterBytes(of))}
			case tfOtherBlockHash:
				if other == b {
					return nil
				}
				oh := other.Hash
				return []wire.Message{wire.NewMsgCFilter(msg.FilterType, &oh, msg.Data)}
			case tfWrongType:
				return []wire.Message{wire.NewMsgCFilter(wire.FilterType(1+tp.Intn(3)), &msg.BlockHash, msg.Data)}
			case tfUnknownHash:
				h := chainhash.DoubleHashH(msg.BlockHash[:])
				return []wire.Message{wire.NewMsgCFilter(msg.FilterType, &h, msg.Data), msg}
			case tfEmpty:
				return []wire.Message{wire.NewMsgCFilter(msg.FilterType, &msg.BlockHash, nil)}
			case tfExtraFirst:
				oh := other.Hash
				validSent[oh] = true // the unsolicited one is a true filter of its block
				return []wire.Message{wire.NewMsgCFilter(msg.FilterType, &oh, filterBytes(of)), msg}
			}
			return []wire.Message{msg}
		}
	}

	cacheSize := uint64(0)
	persist := false
	if err := w.startClient(func(cfg *neutrino.Config) {
		if isC05 {
			switch tp.Intn(3) {
			case 0:
				cfg.FilterCacheSize = uint64(40 + tp.Intn(400)) // a few filters only: eviction and the miss path run
			case 1:
				cfg.FilterCacheSize = 1 << 20
			}
			cacheSize = cfg.FilterCacheSize
			persist = tp.Chance(1, 2)
			cfg.PersistToDisk = persist
		} else {
			if tp.Chance(1, 2) {
				cfg.BlockCacheSize = uint64(300 + tp.Intn(3000))
			}
		}
	}); err != nil {
		rc.Infra("start client: %v", err)
	}
	wt := w.newWatcher(rc.Prop)
	defer func() {
		if !w.shutdown(10 * time.Minute) {
			rc.Probe("cleanup_stop_did_not_return")
		}
	}()

	// Sync: the filter-header sync is served honestly by every node.
	synced := w.runFor(10*time.Minute, func() bool {
		if early {
			hdr, _, err := w.cs.BlockHeaders.ChainTip()
			return err == nil && hdr.BlockHash() == plan.main.Hash
		}
		bs, err := w.cs.BestBlock()
		return err == nil && bs.Hash == plan.main.Hash
	})
	// While API calls run, a client goroutine that never blocks (so that
	// simulated time cannot advance) means the call can never come back.
	rc.StallClause = "api-call-livelock"
	rc.StallFacts = map[string]string{"early": fmt.Sprint(early)}
	defer func() { rc.StallClause = "" }()
	if !synced {
		rc.Probe("not_synced_before_api_calls")
		rc.Res.Sample = map[string]any{"main": n, "nodes": nPeers, "synced": false}
		return
	}
	wt.check()

	type call struct {
		hadBefore      bool // the filter was in the cache or database when the call started
		defaultRetries bool
		idx            int
		blk            *chainmodel.Block
		what           string
		done           chan struct{}
		filt           *gcs.Filter
		block          *btcutil.Block
		err            error
		t0             time.Time
	}
	var calls []*call
	nCalls := 1 + tp.Intn(6)
	if thorough {
		nCalls = 1 + tp.Intn(14)
	}
	inflight := 0
	bannedBefore := map[int]bool{}

	checkCaches := func() {
		for h := 1; h <= n; h++ {
			b := chain[h]
			mf, _, _ := w.tree.Filter(b)
			want := filterBytes(mf)
			if isC05 {
				if cf, err := w.cs.FilterCache.Get(neutrino.FilterCacheKey{BlockHash: b.Hash, FilterType: filterdb.RegularFilter}); err == nil && cf != nil {
					if !bytes.Equal(filterBytes(cf.Filter), want) {
						rc.Failf("unverified-filter-cached", nil, "FilterCache holds a filter for block %d (%s) that is not the block's filter", h, short(b.Hash))
					}
					rc.Probe("cache_entry_checked")
				}
				if df, err := w.cs.FilterDB.FetchFilter(&b.Hash, filterdb.RegularFilter); err == nil && df != nil {
					if !bytes.Equal(filterBytes(df), want) {
						rc.Failf("unverified-filter-persisted", nil, "FilterDB holds a filter for block %d (%s) that is not the block's filter", h, short(b.Hash))
					}
					rc.Probe("db_entry_checked")
				}
			} else {
				for _, it := range []wire.InvType{wire.InvTypeWitnessBlock, wire.InvTypeBlock} {
					if cb, err := w.cs.BlockCache.Get(*wire.NewInvVect(it, &b.Hash)); err == nil && cb != nil {
						if !sameBlock(cb.Block.MsgBlock(), b.Msg) {
							rc.Failf("invalid-block-cached", nil, "BlockCache holds a block for %d (%s) that is not the block", h, short(b.Hash))
						}
						rc.Probe("block_cache_entry_checked")
					}
				}
			}
		}
	}

	judge := func(c *call) {
		inflight--
		h := c.blk.Height
		rc.State(fmt.Sprintf("call|%s|h=%s|err=%v|had=%v", c.what, bucket(int(h)), c.err != nil, c.hadBefore))
		if isC05 {
			if c.err == nil && c.filt == nil {
				rc.Failf("nil-filter-without-error", nil, "GetCFilter(%d) returned neither a filter nor an error", h)
			}
			if c.err == nil && early {
				rc.Failf("filter-returned-without-committed-header", nil,
					"GetCFilter(%d) returned a filter although no filter header for that block is committed (filter tip 0)", h)
			}
			if early {
				rc.Probe("early_call_failed_as_it_must")
			}
			if c.err == nil && !validSent[c.blk.Hash] && !c.hadBefore {
				rc.Failf("filter-accepted-from-invalid-response", map[string]string{"kinds": badSent[c.blk.Hash]},
					"GetCFilter(%d) returned a filter although no node ever sent a correct, correctly labelled cfilter for that block (sent: %s) and it was neither cached nor persisted before the call",
					h, badSent[c.blk.Hash])
			}
			if c.err == nil {
				mf, _, _ := w.tree.Filter(c.blk)
				if !bytes.Equal(filterBytes(c.filt), filterBytes(mf)) {
					rc.Failf("unverified-filter-returned", map[string]string{"opts": c.what},
						"GetCFilter for block %d (%s) with %s returned a filter that does not hash with the committed previous filter header to the committed filter header",
						h, short(c.blk.Hash), c.what)
				}
				rc.Probe("filter_returned")
			} else {
				rc.Probe("filter_call_failed")
				rc.Logf("t=%s call %d GetCFilter(%d) failed: %v", w.clock(), c.idx, h, c.err)
			}
		} else {
			if c.err == nil && c.block == nil {
				rc.Failf("nil-block-without-error", nil, "GetBlock(%d) returned neither a block nor an error", h)
			}
			if c.err == nil {
				if c.blk.Height < 0 {
					rc.Failf("unknown-block-returned", nil, "GetBlock of a hash the client has no header for returned a block")
				}
				if *c.block.Hash() != c.blk.Hash || !sameBlock(c.block.MsgBlock(), c.blk.Msg) {
					rc.Failf("wrong-or-invalid-block-returned", map[string]string{"same_hash": fmt.Sprint(*c.block.Hash() == c.blk.Hash)},
						"GetBlock(%d %s) returned a block (hash %s, %d txs) that is not the requested, internally valid block",
						h, short(c.blk.Hash), short(*c.block.Hash()), len(c.block.MsgBlock().Transactions))
				}
				rc.Probe("block_returned")
			} else {
				rc.Probe("block_call_failed")
				rc.Logf("t=%s call %d GetBlock(%d) failed: %v", w.clock(), c.idx, h, c.err)
				if honestReliable && c.defaultRetries && c.blk.Height > 0 && w.peers[0].sessions == 1 && w.peers[0].connected() &&
					!w.cs.IsBanned(w.peers[0].addr.String()) {
					// Who was asked for this block, how often?
					why := "other"
					asked := func(p *SimPeer) int {
						k := 0
						for _, g := range p.gotGetData {
							if g == c.blk.Hash {
								k++
							}
						}
						return k
					}
					if asked(w.peers[0]) == 0 {
						// The call's 30-second budget holds four attempts
						// (2, 4, 8 and 16 seconds): did all of them go to
						// nodes that do not serve this block truthfully?
						// (Requests of an overlapping call for the same block
						// that went to a node serving it truthfully are not
						// this call's attempts.)
						var at []time.Time
						for _, p := range w.peers[1:] {
							kind := p.beh.BlockLieAll
							if kk, ok := p.beh.BlockLie[c.blk.Hash]; ok {
								kind = kk
							}
							if kind == blkHonest {
								continue
							}
							for i, g := range p.gotGetData {
								if g == c.blk.Hash && i < len(p.gotGetDataAt) {
									at = append(at, p.gotGetDataAt[i])
								}
							}
						}
						sort.Slice(at, func(i, j int) bool { return at[i].Before(at[j]) })
						// ... and on the unchanged schedule: the second
						// attempt 2 s after the first, the third 4 s after
						// the second, the fourth 8 s after the third (a
						// change that stretches or cuts the attempts does
						// not look like this).
						onSchedule := len(at) >= 4
						for i, gap := range []time.Duration{2 * time.Second, 4 * time.Second, 8 * time.Second} {
							if onSchedule {
								d := at[i+1].Sub(at[i]) - gap
								if d < -300*time.Millisecond || d > 300*time.Millisecond {
									onSchedule = false
								}
							}
						}
						if onSchedule {
							why = "all-four-attempts-the-budget-allows-went-to-silent-or-lying-peers"
						}
					}
					rc.Failf("block-request-not-retried-with-honest-peer", map[string]string{"why": why},
						"GetBlock(%d %s) failed (%v) although the honest node %s was connected all the time and serves the block",
						h, short(c.blk.Hash), c.err, w.peers[0].addr.IP)
				}
			}
		}
	}

	for i := 0; i < nCalls; i++ {
		c := &call{idx: i, done: make(chan struct{}), t0: time.Now()}
		c.blk = chain[1+tp.Intn(n)]
		switch tp.Intn(6) {
		case 0:
			c.blk = chain[1]
		case 1:
			c.blk = chain[n]
		}
		if isC05 {
			var opts []neutrino.QueryOption
			switch tp.Intn(4) {
			case 0:
				c.what = "no-batch"
			case 1:
				opts = append(opts, neutrino.OptimisticBatch())
				c.what = "forward-batch"
			case 2:
				opts = append(opts, neutrino.OptimisticReverseBatch())
				c.what = "reverse-batch"
			case 3:
				m := int64(1 + tp.Intn(6))
				if tp.Chance(1, 2) {
					opts = append(opts, neutrino.OptimisticBatch(), neutrino.MaxBatchSize(m))
					c.what = fmt.Sprintf("forward-batch-max%d", m)
				} else {
					opts = append(opts, neutrino.OptimisticReverseBatch(), neutrino.MaxBatchSize(m))
					c.what = fmt.Sprintf("reverse-batch-max%d", m)
				}
			}
			if tp.Chance(1, 3) {
				opts = append(opts, neutrino.NumRetries(uint8(tp.Intn(3))))
			}
			if cf, err := w.cs.FilterCache.Get(neutrino.FilterCacheKey{BlockHash: c.blk.Hash, FilterType: filterdb.RegularFilter}); err == nil && cf != nil {
				c.hadBefore = true
			}
			if df, err := w.cs.FilterDB.FetchFilter(&c.blk.Hash, filterdb.RegularFilter); err == nil && df != nil {
				c.hadBefore = true
			}
			rc.Logf("t=%s call %d: GetCFilter(height %d, %s)", w.clock(), i, c.blk.Height, c.what)
			go func() {
				c.filt, c.err = w.cs.GetCFilter(c.blk.Hash, wire.GCSFilterRegular, opts...)
				close(c.done)
			}()
		} else {
			var opts []neutrino.QueryOption
			if tp.Chance(1, 8) {
				// a hash the client has no header for
				fake := &chainmodel.Block{Hash: chainhash.DoubleHashH([]byte{byte(i)}), Height: -1}
				c.blk = fake
			}
			c.defaultRetries = true
			if tp.Chance(1, 4) {
				opts = append(opts, neutrino.NumRetries(uint8(1+tp.Intn(3))))
				c.defaultRetries = false
			}
			if tp.Chance(1, 6) {
				opts = append(opts, neutrino.Encoding(wire.BaseEncoding))
				c.what = "base-encoding"
			}
			rc.Logf("t=%s call %d: GetBlock(height %d %s) %s", w.clock(), i, c.blk.Height, short(c.blk.Hash), c.what)
			if c.what == "base-encoding" {
				// Without witness data the commitment cannot be checked the
				// same way; the block returned is still the block minus
				// witnesses. Keep the oracle simple: not generated.
				opts = opts[:len(opts)-1]
				c.what = ""
			}
			go func() {
				c.block, c.err = w.cs.GetBlock(c.blk.Hash, opts...)
				close(c.done)
			}()
		}
		calls = append(calls, c)
		inflight++
		// Sometimes overlap calls, otherwise wait for this one.
		// (GetCFilter serialises its callers on a plain mutex, which a bubble
		// cannot see through: two overlapping calls would freeze simulated
		// time. C05 calls are therefore issued one after another.)
		if !isC05 && tp.Chance(1, 3) && i+1 < nCalls {
			w.runFor(time.Duration(tp.Intn(2000))*time.Millisecond, nil)
			continue
		}
		for _, cc := range calls {
			if cc.done != nil {
				if !w.waitChan(cc.done, 20*time.Minute) {
					if !isC05 && !(honestReliable && w.peers[0].connected()) {
						// Nobody left to ask (every node that had the
						// block was banned for lying about it): the call
						// waits for a peer. Not this property's business;
						// the run ends here.
						rc.Probe("block_call_waiting_for_any_peer")
						rc.Res.Nontrivial = true
						return
					}
					rc.Failf("api-call-never-returned", map[string]string{"call": map[bool]string{true: "GetCFilter", false: "GetBlock"}[isC05]},
						"call %d did not return within 20 simulated minutes", cc.idx)
				}
				cc.done = nil
				judge(cc)
			}
		}
		synctest.Wait()
		checkCaches()
		// Ban bookkeeping for C06.
		if !isC05 {
			for _, p := range w.peers {
				if w.cs.IsBanned(p.addr.String()) && !bannedBefore[p.idx] {
					bannedBefore[p.idx] = true
					if p.sentBadBlockWithHeader == 0 {
						rc.Failf("peer-banned-without-invalid-block", map[string]string{"role": p.role},
							"node %s is banned although it never delivered a block that carried a requested header and failed the checks", p.addr.IP)
					}
					rc.Probe("block_liar_banned")
				}
				if p.sentBadBlockWithHeader > 0 && !w.cs.IsBanned(p.addr.String()) {
					rc.Failf("invalid-block-sender-not-banned", map[string]string{"kind": p.lastBadKind},
						"node %s delivered a block with the requested header that fails the checks (%s) and is not banned", p.addr.IP, p.lastBadKind)
				}
			}
		}
	}
	if persist {
		// let the batch writer flush, then look at the database again
		w.runFor(2*time.Second, nil)
		checkCaches()
	}
	wt.check()
	rc.Res.Steps = w.steps
	rc.Res.Nontrivial = len(calls) > 0
	nErr := 0
	for _, c := range calls {
		if c.err != nil {
			nErr++
		}
	}
	rc.Res.Sample = map[string]any{"main": n, "nodes": nPeers, "calls": len(calls), "errors": nErr, "tampered": tampered,
		"cache_size": cacheSize, "persist": persist}
}

func sameBlock(a, b *wire.MsgBlock) bool {
	var ba, bb bytes.Buffer
	if err := a.Serialize(&ba); err != nil {
		return false
	}
	if err := b.Serialize(&bb); err != nil {
		return false
	}
	return bytes.Equal(ba.Bytes(), bb.Bytes())
}
