package e1

import (
	"fmt"
	"runtime"
	"sync"
	"testing"
	"testing/synctest"
	"time"

	"github.com/btcsuite/btcd/btcutil/v2"
	"github.com/btcsuite/btcd/chainhash/v2"
	"github.com/btcsuite/btcd/rpcclient"
	"github.com/btcsuite/btcd/wire/v2"
	"github.com/lightninglabs/neutrino"
	"github.com/lightninglabs/neutrino/banman"
	"github.com/lightninglabs/neutrino/headerfs"

	"verif/sim/chainmodel"
	"verif/sim/core"
)

func init() {
	core.Register("C18", func(t *testing.T, rc *core.RunCtx) { runBubble(t, rc, runRace) })
}

// runRace is engine E5: the whole client, free-running. Unlike every other E1
// scenario nothing is stepped: the simulated nodes are goroutines that answer
// at once, API callers run concurrently with the sync, and the simulator never
// waits for quiescence until the very end, because every such wait (and every
// idle jump of the fake clock) is a happens-before edge that would order one
// burst of client activity after another and hide races between them. The
// only oracle is the race detector (the binary is built with -race and run
// with several Ps); the tape only shapes the workload.
func runRace(t *testing.T, rc *core.RunCtx) {
	tp := rc.Tape
	rc.TolerateLeftover = true
	params := chainmodel.NewParams(chainmodel.ParamOpts{RetargetInterval: []int{0, 8}[tp.Intn(2)]})
	w := newWorld(t, rc, params)
	n := tp.Range(3, 40)
	plan := &chainPlan{}
	tipTime := w.epoch.Add(-time.Duration(1+tp.Intn(30)) * time.Minute)
	plan.main = w.mineChain(w.tree.Genesis, n, 10*time.Minute, tipTime, 0, "", &plan.salt, 70)
	// Everything the nodes will serve is built up front: the model tree is
	// read-only while the free run lasts (lazily memoised filters included).
	depth := 1 + tp.Intn(minInt(n, 4))
	forkAt := plan.main.Ancestor(plan.main.Height - int32(depth))
	fork := w.mineChain(forkAt, depth+2, time.Minute, w.epoch.Add(-30*time.Second), 0, "", &plan.salt, 70)
	ext := w.mineChain(fork, 2, time.Minute, w.epoch.Add(-5*time.Second), 0, "", &plan.salt, 70)
	for _, tip := range []*chainmodel.Block{plan.main, ext} {
		w.tree.Filter(tip)
	}
	chain := plan.main.Chain()

	nPeers := 2 + tp.Intn(2)
	liar := -1
	if tp.Chance(1, 2) {
		liar = 1
	}
	var views sync.Mutex // guards the nodes' view pointers during the free run
	for i := 0; i < nPeers; i++ {
		beh := &Behaviour{}
		role := "honest"
		if i == liar {
			role = "cf-liar"
			beh.CFLies = map[int32]int{int32(1 + tp.Intn(n)): 1 + tp.Intn(3)}
		}
		if i == 2 {
			beh.BlockLieAll = []int{blkHonest, blkMutatedTx, blkBadWitness}[tp.Intn(3)]
		}
		p := w.addPeer(role, plan.main, beh)
		p.filterHeader(ext)
		p.filterHeader(plan.main)
	}
	persist := tp.Chance(1, 2)
	cacheSize := uint64(0)
	if tp.Chance(1, 2) {
		cacheSize = uint64(100 + tp.Intn(2000))
	}
	// No yield hook, no database wrapper (and so no lock of ours) inside the
	// client in race-detector runs.
	neutrino.VerifYield = nil
	w.plainDB = true
	if err := w.startClient(func(cfg *neutrino.Config) {
		cfg.PersistToDisk = persist
		cfg.FilterCacheSize = cacheSize
		if tp.Chance(1, 2) {
			cfg.BlockCacheSize = uint64(500 + tp.Intn(5000))
		}
	}); err != nil {
		rc.Infra("start client: %v", err)
	}
	cs := w.cs
	w.freeRun = true

	// Node pumps: one goroutine per node, answering immediately. They use
	// only per-node state and the read-only model.
	stopPumps := make(chan struct{})
	var pumps sync.WaitGroup
	served := make([]int, nPeers)
	for _, p := range w.peers {
		p := p
		pumps.Add(1)
		go func() {
			defer pumps.Done()
			var cur, dead *simConn
			for {
				select {
				case <-stopPumps:
					return
				default:
				}
				// this node's newest connection
				w.net.mu.Lock()
				c := w.net.live[p.addr.String()]
				w.net.mu.Unlock()
				if c == nil || c == dead {
					select {
					case <-stopPumps:
						return
					case <-w.net.activity: // a dial happened (or some write)
					case <-time.After(time.Second):
					}
					continue
				}
				if c != cur {
					cur = c
					p.conn = c
					p.par = &parser{bnet: w.net.bnet}
					p.shook = false
				}
				b, closed := cur.waitOut(stopPumps)
				if len(b) > 0 {
					msgs, err := p.par.feed(b)
					if err != nil {
						return
					}
					for _, m := range msgs {
						views.Lock()
						p.handleFree(m)
						views.Unlock()
						served[p.idx]++
					}
				}
				if closed {
					dead = cur
				}
			}
		}()
	}

	// Workload: API callers, all concurrent with the sync and with each other.
	var callers sync.WaitGroup
	done := make(chan struct{})
	nCalls := make(map[string]int)
	var nmu sync.Mutex
	count := func(s string) { nmu.Lock(); nCalls[s]++; nmu.Unlock() }
	spawn := func(name string, f func()) {
		callers.Add(1)
		go func() {
			defer callers.Done()
			f()
			count(name)
		}()
	}
	rescanQuit := make(chan struct{})
	kinds := 4 + tp.Intn(9)
	filterUser := 0
	for i := 0; i < kinds; i++ {
		blk := chain[1+tp.Intn(n)]
		k := tp.Intn(12)
		// GetCFilter serialises on a plain mutex (16.3): the filter-fetching
		// users of a run are either one GetCFilter loop, or one Rescan, or
		// any number of GetUtxo requests (they share the scanner's single
		// batch goroutine).
		if k >= 1 && k <= 3 {
			if filterUser != 0 && filterUser != k || (filterUser == k && k != 2) {
				k = 0
			} else {
				filterUser = k
			}
		}
		switch k {
		case 0:
			spawn("GetBlock", func() { cs.GetBlock(blk.Hash) })
		case 1:
			spawn("GetCFilter", func() {
				for j := 0; j < 3; j++ {
					cs.GetCFilter(blk.Hash, wire.GCSFilterRegular, neutrino.OptimisticBatch())
				}
			})
		case 2:
			pool := plan.main.Pool()
			if len(pool) == 0 {
				continue
			}
			u := pool[tp.Intn(len(pool))]
			start := int32(tp.Intn(n + 1))
			spawn("GetUtxo", func() {
				cs.GetUtxo(neutrino.WatchInputs(neutrino.InputWithScript{OutPoint: u.Op, PkScript: u.Script}),
					neutrino.StartBlock(&headerfs.BlockStamp{Height: start}), neutrino.QuitChan(done))
			})
		case 3:
			addr := w.tree.Keys[tp.Intn(len(w.tree.Keys))].Addr
			addr2 := w.tree.Keys[tp.Intn(len(w.tree.Keys))].Addr
			start := chain[tp.Intn(n+1)]
			// one rescan in two ends by itself at its start block
			endOpt := neutrino.EndBlock(&headerfs.BlockStamp{Height: start.Height, Hash: start.Hash})
			if tp.Chance(1, 2) {
				endOpt = neutrino.EndBlock(nil)
			}
			spawn("Rescan", func() {
				r := neutrino.NewRescan(&neutrino.RescanChainSource{ChainService: cs}, neutrino.QuitChan(rescanQuit),
					neutrino.StartBlock(&headerfs.BlockStamp{Height: start.Height, Hash: start.Hash}),
					endOpt,
					neutrino.WatchAddrs(addr),
					neutrino.NotificationHandlers(rpcclient.NotificationHandlers{
						OnFilteredBlockConnected:    func(int32, *wire.BlockHeader, []*btcutil.Tx) {},
						OnFilteredBlockDisconnected: func(int32, *wire.BlockHeader) {},
					}))
				r.Start()
				// Another goroutine feeds the rescan updates, also after it
				// has ended (its error channel is never read here).
				upd := make(chan struct{})
				go func() {
					defer close(upd)
					// (no WaitForShutdown here: nothing but the rescan's
					// own locking orders these calls with its end)
					for k := 0; k < 40; k++ {
						runtime.Gosched()
						r.Update(neutrino.AddAddrs(addr2))
					}
				}()
				r.WaitForShutdown()
				<-upd
			})
		case 4:
			tx := wire.NewMsgTx(2)
			tx.AddTxIn(&wire.TxIn{PreviousOutPoint: wire.OutPoint{Hash: chainhash.DoubleHashH([]byte{byte(i)}), Index: 0}})
			tx.AddTxOut(&wire.TxOut{Value: 1000, PkScript: w.tree.Keys[0].Script})
			spawn("SendTransaction", func() { cs.SendTransaction(tx) })
		case 5:
			spawn("Subscribe", func() {
				src := &neutrino.RescanChainSource{ChainService: cs}
				sub, err := src.Subscribe(0)
				if err != nil {
					return
				}
				for {
					select {
					case _, ok := <-sub.Notifications:
						if !ok {
							return
						}
					case <-done:
						sub.Cancel()
						return
					}
				}
			})
		case 6:
			spawn("readers", func() {
				for j := 0; j < 200; j++ {
					cs.BestBlock()
					cs.GetBlockHash(int64(j % (n + 1)))
					cs.GetBlockHeader(&blk.Hash)
					cs.GetBlockHeight(&blk.Hash)
					cs.IsCurrent()
					cs.RegFilterHeaders.ChainTip()
					cs.BlockHeaders.LatestBlockLocator()
					select {
					case <-done:
						return
					default:
					}
				}
			})
		case 7:
			spawn("peers", func() {
				for j := 0; j < 50; j++ {
					for _, sp := range cs.Peers() {
						sp.LastBlock()
						sp.Addr()
					}
					cs.ConnectedCount()
					cs.NetTotals()
					select {
					case <-done:
						return
					default:
					}
				}
			})
		case 8:
			victim := w.peers[nPeers-1].addr.String()
			spawn("ban", func() {
				cs.IsBanned(victim)
				cs.BanPeer(victim, banman.ExceededBanThreshold)
				cs.IsBanned(victim)
				cs.UnbanPeer(victim, true)
			})
		case 9:
			spawn("caches", func() {
				for j := 0; j < 100; j++ {
					cs.FilterCache.Len()
					cs.BlockCache.Len()
					cs.FilterCache.Size()
					select {
					case <-done:
						return
					default:
					}
				}
			})
		case 11:
			// several callers hammering the same few blocks: cache hits
			// from more than one goroutine at a time
			hot := []*chainmodel.Block{chain[1+tp.Intn(n)], chain[1+tp.Intn(n)], chain[n]}
			for g := 0; g < 3; g++ {
				spawn("cachehits", func() {
					for j := 0; j < 30; j++ {
						cs.GetBlock(hot[j%len(hot)].Hash)
						select {
						case <-done:
							return
						default:
						}
					}
				})
			}
		case 10:
			// the honest side reorganises and grows while everything runs
			spawn("reorg", func() {
				time.Sleep(time.Duration(50+10*i) * time.Millisecond)
				views.Lock()
				for _, p := range w.peers {
					p.setView(fork)
				}
				views.Unlock()
				for _, p := range w.peers {
					p.announceFree(fork)
				}
				time.Sleep(200 * time.Millisecond)
				views.Lock()
				for _, p := range w.peers {
					p.setView(ext)
				}
				views.Unlock()
				for _, p := range w.peers {
					p.announceFree(ext)
				}
			})
		}
	}

	// Let it all run: fake time passes only while everybody is blocked.
	time.Sleep(time.Duration(5+tp.Intn(60)) * time.Second)
	stopped := make(chan struct{})
	go func() { cs.Stop(); close(stopped) }()
	close(done)
	select {
	case <-stopped:
	case <-time.After(20 * time.Minute):
		rc.Probe("stop_did_not_return_in_free_run")
	}
	close(rescanQuit)
	w.running = false
	cdone := make(chan struct{})
	go func() { callers.Wait(); close(cdone) }()
	select {
	case <-cdone:
	case <-time.After(20 * time.Minute):
		rc.Probe("callers_not_released_in_free_run")
	}
	close(stopPumps)
	w.net.mu.Lock()
	for k := range w.net.up {
		w.net.up[k] = false
	}
	w.net.mu.Unlock()
	w.closeAllConns()
	pumps.Wait()
	synctest.Wait()
	if w.db != nil {
		w.db.Close()
		w.db = nil
	}
	total := 0
	for _, s := range served {
		total += s
	}
	rc.Res.Steps = total
	rc.Res.Nontrivial = total > 10
	nmu.Lock()
	rc.Res.Sample = map[string]any{"main": n, "nodes": nPeers, "messages_served": total, "calls_finished": nCalls, "persist": persist}
	for k := range nCalls {
		rc.Probe("free_" + k)
	}
	nmu.Unlock()
	rc.State(fmt.Sprintf("nodes=%d|kinds=%d|served=%s", nPeers, kinds, bucket(total)))
}

// waitOut blocks until the client wrote something, the connection closed or
// stop is closed; it returns what was written.
func (c *simConn) waitOut(stop <-chan struct{}) ([]byte, bool) {
	for {
		c.mu.Lock()
		if len(c.out) > 0 || c.closedLocal || c.closedRemote {
			b := c.out
			c.out = nil
			closed := c.closedLocal || c.closedRemote
			c.mu.Unlock()
			return b, closed
		}
		c.mu.Unlock()
		select {
		case <-stop:
			return nil, true
		case <-c.sig:
		}
	}
}

// handleFree is handle() for the free-running mode: same answers, delivered
// at once, no tape, no event queue. Caller holds the views lock.
func (p *SimPeer) handleFree(msg wire.Message) { p.handle(msg) }

// announceFree sends an inv for tip on the node's current connection.
func (p *SimPeer) announceFree(tip *chainmodel.Block) {
	p.w.net.mu.Lock()
	c := p.w.net.live[p.addr.String()]
	p.w.net.mu.Unlock()
	if c == nil || c.dead() {
		return
	}
	inv := wire.NewMsgInv()
	h := tip.Hash
	inv.AddInvVect(wire.NewInvVect(wire.InvTypeBlock, &h))
	c.deliver(encodeMsg(inv, p.w.net.bnet, wire.WitnessEncoding))
}
