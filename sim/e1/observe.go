package e1

import (
	"fmt"
	"time"

	"github.com/btcsuite/btcd/chainhash/v2"
	"github.com/btcsuite/btcd/wire/v2"

	"verif/sim/chainmodel"
)

// storeView is what the client's header stores hold at a quiescent point.
type storeView struct {
	hdrs []wire.BlockHeader
	blks []*chainmodel.Block // model block per height (nil if the header is not one the model produced)
	filt []chainhash.Hash    // filter headers by height (len-1 == filter tip)
}

func (v *storeView) tip() int32 { return int32(len(v.hdrs) - 1) }

func (v *storeView) tipBlock() *chainmodel.Block { return v.blks[len(v.blks)-1] }

// watcher observes the stores at quiescent points and evaluates the oracles of
// C01 (validity, lookup agreement), C02 (only-heavier reorganisations above
// the checkpoint) and the safety part of C03 (filter headers never ahead, each
// belongs to its block).
type watcher struct {
	w    *World
	prop string // property whose clauses are reported by this run
	prev *storeView
	// lastTip/lastFTip: cheap change detection.
	lastTipHash chainhash.Hash
	lastTip     int32
	lastFTip    int32
	lastFTipH   chainhash.Hash
	haveLast    bool
	// maxNow is the latest simulated time any header could have been
	// accepted at (for the future-time rule).
	// cfValue: the filter-header value clause is asserted (scenario has a
	// reliable honest node from the start and only provable lies).
	cfValue bool
	// reorgs seen, for probes
	nReorg, nExtend, nRollback int
	// checks enabled: which property's clauses this run reports. Clauses
	// of other properties are not evaluated (a store the run cannot read
	// ends the run without verdict unless C01 is the subject).
	checkC01  bool
	checkC02  bool
	checkC03  bool
	fullEvery int
	n         int
	lastAdopt *chainmodel.Block
	listAhead bool
	listTip   *chainmodel.Block // model block at the end of the in-memory header chain
	// hooks for other oracles (C04, C19, ...)
	onView func(prev, cur *storeView)
}

func (w *World) newWatcher(prop string) *watcher {
	wt := &watcher{w: w, prop: prop, fullEvery: 50}
	switch prop {
	case "C01":
		wt.checkC01 = true
	case "C02":
		wt.checkC02 = true
	case "C03":
		wt.checkC03 = true
	}
	w.observers = append(w.observers, wt.observe)
	return wt
}

// fail reports a C01 clause (store readable, lookups agree, headers valid).
// In a run whose subject is another property the run ends without verdict.
func (wt *watcher) fail(clause string, facts map[string]string, format string, a ...any) {
	if !wt.checkC01 {
		wt.w.rc.Probe("run_abandoned_c01_clause_" + clause)
		wt.w.rc.Logf("abandoned: "+format, a...)
		panic(abandonRun{})
	}
	wt.w.rc.Failf(clause, facts, format, a...)
}

// abandonRun unwinds a run that cannot be judged for its own property.
type abandonRun struct{}

// failC02 reports a C02 clause (only in runs whose subject is C02; the
// transition is classified in every run for the reach probes).
func (wt *watcher) failC02(clause string, facts map[string]string, format string, a ...any) {
	if wt.checkC02 {
		wt.w.rc.Failf(clause, facts, format, a...)
	}
}

// failOwn reports a clause of the run's own property.
func (wt *watcher) failOwn(clause string, facts map[string]string, format string, a ...any) {
	wt.w.rc.Failf(clause, facts, format, a...)
}

// read reads both stores completely through their public read API, checking
// that the answers agree with each other.
func (wt *watcher) read() *storeView {
	cs := wt.w.cs
	v := &storeView{}
	tipHdr, tipH, err := cs.BlockHeaders.ChainTip()
	if err != nil {
		wt.fail("store-tip-unreadable", nil, "BlockHeaders.ChainTip: %v", err)
	}
	for h := uint32(0); h <= tipH; h++ {
		hdr, err := cs.BlockHeaders.FetchHeaderByHeight(h)
		if err != nil {
			wt.fail("store-height-unreadable", nil, "FetchHeaderByHeight(%d) with tip %d: %v", h, tipH, err)
		}
		v.hdrs = append(v.hdrs, *hdr)
		hash := hdr.BlockHash()
		v.blks = append(v.blks, wt.w.tree.ByHash[hash])
		if h > 0 && hdr.PrevBlock != v.hdrs[h-1].BlockHash() {
			wt.fail("stored-chain-broken", nil, "header at height %d (%s) does not name the header at %d (%s) as predecessor",
				h, short(hash), h-1, short(v.hdrs[h-1].BlockHash()))
		}
		hdr2, h2, err := cs.BlockHeaders.FetchHeader(&hash)
		if err != nil || h2 != h || hdr2.BlockHash() != hash {
			wt.fail("lookup-disagree", map[string]string{"by": "hash"}, "height %d: FetchHeader(%s) = height %d, err %v", h, short(hash), h2, err)
		}
	}
	if tipHdr.BlockHash() != v.hdrs[tipH].BlockHash() {
		wt.fail("lookup-disagree", map[string]string{"by": "tip"}, "ChainTip is %s but height %d holds %s",
			short(tipHdr.BlockHash()), tipH, short(v.hdrs[tipH].BlockHash()))
	}
	if v.hdrs[0].BlockHash() != *wt.w.params.GenesisHash {
		wt.fail("genesis-wrong", nil, "height 0 holds %s", short(v.hdrs[0].BlockHash()))
	}
	// (A filter-header store that cannot be read back is C03's business as
	// much as C01's: its entries must belong to the blocks of the chain.)
	ffail := wt.fail
	if wt.checkC03 {
		ffail = wt.failOwn
	}
	ftip, ftipH, err := cs.RegFilterHeaders.ChainTip()
	if err != nil {
		ffail("filter-tip-unreadable", nil, "RegFilterHeaders.ChainTip: %v", err)
	}
	if ftipH > tipH {
		if wt.checkC03 {
			wt.failOwn("filter-ahead-of-block", nil, "filter-header tip %d is above block-header tip %d", ftipH, tipH)
		}
		wt.fail("filter-ahead-of-block", nil, "filter-header tip %d is above block-header tip %d", ftipH, tipH)
	}
	for h := uint32(0); h <= ftipH; h++ {
		fh, err := cs.RegFilterHeaders.FetchHeaderByHeight(h)
		if err != nil {
			ffail("filter-height-unreadable", nil, "filter FetchHeaderByHeight(%d) with tip %d: %v", h, ftipH, err)
		}
		v.filt = append(v.filt, *fh)
	}
	if *ftip != v.filt[ftipH] {
		ffail("lookup-disagree", map[string]string{"by": "filter-tip"}, "filter ChainTip differs from entry at height %d", ftipH)
	}
	return v
}

func (wt *watcher) changed() bool {
	cs := wt.w.cs
	hdr, h, err := cs.BlockHeaders.ChainTip()
	if err != nil {
		return true
	}
	fh, fhh, err := cs.RegFilterHeaders.ChainTip()
	if err != nil {
		return true
	}
	hash := hdr.BlockHash()
	if wt.haveLast && hash == wt.lastTipHash && int32(h) == wt.lastTip && int32(fhh) == wt.lastFTip && *fh == wt.lastFTipH {
		return false
	}
	wt.lastTipHash, wt.lastTip, wt.lastFTip, wt.lastFTipH, wt.haveLast = hash, int32(h), int32(fhh), *fh, true
	return true
}

// observe is run at every quiescent point.
func (wt *watcher) observe() {
	if !wt.w.running {
		return
	}
	wt.n++
	// Reach probe (white box, hook H6): the in-memory header chain has run
	// ahead of (or otherwise left) the persisted tip.
	if lh, lheight, ok := wt.w.cs.VerifHeaderListTip(); ok {
		wt.listTip = wt.w.tree.ByHash[lh]
		if hdr, h, err := wt.w.cs.BlockHeaders.ChainTip(); err == nil && (hdr.BlockHash() != lh || int32(h) != lheight) {
			if !wt.listAhead {
				wt.w.rc.Probe("header_list_differs_from_store_tip")
				wt.w.rc.Logf("t=%s probe: in-memory header chain ends at %d (%s), store tip is %d (%s)", wt.w.clock(), lheight, short(lh), h, short(hdr.BlockHash()))
			}
			wt.listAhead = true
		} else {
			wt.listAhead = false
		}
	}
	if !wt.changed() && wt.n%wt.fullEvery != 0 {
		return
	}
	wt.check()
}

// offChain: a lookup by hash must not report a header that the lookups by
// height do not have (every header any node ever produced is tried).
func (wt *watcher) offChain(v *storeView) {
	if !wt.checkC01 {
		return
	}
	n := 0
	for hash, b := range wt.w.tree.ByHash {
		if int(b.Height) < len(v.blks) && v.blks[b.Height] == b {
			continue
		}
		if n++; n > 400 {
			break
		}
		hash := hash
		if hdr, err := wt.w.cs.GetBlockHeader(&hash); err == nil {
			wt.fail("lookup-disagree", map[string]string{"by": "hash-off-chain"},
				"GetBlockHeader(%s) reports a header (%s, model height %d) although the chain reported by height (tip %d) does not contain it",
				short(hash), short(hdr.BlockHash()), b.Height, v.tip())
		}
	}
}

// validity is the C01 clause "every stored header is valid" on its own (model
// taint and the independent validator), for instants at which transitions
// cannot be judged.
func (wt *watcher) validity(v *storeView) {
	for h, b := range v.blks {
		if b == nil {
			wt.fail("unknown-header-stored", nil, "height %d holds a header (%s) that no node ever produced", h, short(v.hdrs[h].BlockHash()))
		}
		if b.Tainted {
			bad := b
			for bad.Broken == "" {
				bad = bad.Parent
			}
			wt.fail("invalid-header-stored", map[string]string{"rule": bad.Broken},
				"stored chain (tip %d) contains the header at height %d (%s) which breaks rule %q", v.tip(), bad.Height, short(bad.Hash), bad.Broken)
		}
	}
	if e := chainmodel.ValidateChain(wt.w.params, v.hdrs, time.Now().Add(70*time.Minute)); e != nil && (e.Rule == "checkpoint" || e.Rule == "future-time") {
		wt.fail("invalid-header-stored", map[string]string{"rule": e.Rule},
			"stored chain (tip %d) contains the header at height %d which breaks rule %q", v.tip(), e.Height, e.Rule)
	}
}

// instant is run while a block-manager goroutine is parked half-way through a
// chain change (hook H7): what the client reports at that very instant must
// be one valid chain on which all lookups agree (C01 says "at every instant").
// Nothing is remembered: how the chain changed is judged between completed
// states only.
func (wt *watcher) instant(site string) {
	if !wt.w.running {
		return
	}
	v := wt.read()
	wt.validity(v)
	wt.offChain(v)
	wt.w.rc.Probe("instant_observed_" + site)
}

// check reads the stores and runs the oracles.
func (wt *watcher) check() {
	w := wt.w
	v := wt.read()
	wt.offChain(v)
	// --- C01: every stored header is valid ---
	var badAt *chainmodel.Block // first invalid stored header, if any
	badRule := ""
	for h, b := range v.blks {
		if b == nil {
			wt.fail("unknown-header-stored", nil, "height %d holds a header (%s) that no node ever produced", h, short(v.hdrs[h].BlockHash()))
		}
		if b.Tainted && badAt == nil {
			bad := b
			for bad.Broken == "" {
				bad = bad.Parent
			}
			badAt, badRule = bad, bad.Broken
		}
	}
	// Independent validator (also knows checkpoints). The client's notion
	// of now may run ahead of the simulated clock by the median-time
	// adjustment (at most 70 minutes).
	if e := chainmodel.ValidateChain(w.params, v.hdrs, time.Now().Add(70*time.Minute)); e != nil {
		switch {
		case e.Rule == "checkpoint" || e.Rule == "future-time":
			if badAt == nil || int32(e.Height) < badAt.Height {
				badAt, badRule = v.blks[e.Height], e.Rule
			}
		case badAt == nil:
			w.rc.Infra("oracles disagree: the model says the stored chain is untainted, the validator says %v", e)
		}
	} else if badAt != nil && badRule != "future-time" {
		w.rc.Infra("oracles disagree: the model says height %d breaks %q, the validator accepts the chain", badAt.Height, badRule)
	}
	if badAt != nil {
		facts := map[string]string{"rule": badRule}
		w.rc.Probe("invalid_header_in_store")
		if wt.checkC02 && wt.prev != nil && int(badAt.Height) < len(wt.prev.blks) && wt.prev.blks[badAt.Height] != badAt &&
			wt.prev.tip() >= badAt.Height {
			wt.failOwn("reorg-to-invalid-branch", facts, "headers from height %d were displaced by a branch whose header at %d breaks rule %q",
				badAt.Height, badAt.Height, badRule)
		}
		wt.fail("invalid-header-stored", facts,
			"stored chain (tip %d) contains the header at height %d (%s) which breaks rule %q",
			v.tip(), badAt.Height, short(badAt.Hash), badRule)
	}
	// API agreement.
	if bs, err := w.cs.BestBlock(); err != nil {
		wt.fail("bestblock-failed", nil, "BestBlock: %v", err)
	} else {
		ft := int32(len(v.filt) - 1)
		if bs.Height != ft || bs.Hash != v.hdrs[ft].BlockHash() {
			wt.fail("lookup-disagree", map[string]string{"by": "bestblock"}, "BestBlock = %d %s, stores say filter tip %d %s",
				bs.Height, short(bs.Hash), ft, short(v.hdrs[ft].BlockHash()))
		}
	}

	// --- C03 safety: each committed filter header belongs to its block ---
	if wt.checkC03 {
		for h := 1; h < len(v.filt); h++ {
			b := v.blks[h]
			want := w.tree.FilterHeader(b)
			if v.filt[h] == want {
				continue
			}
			// Did a filter header survive the disconnection of its block?
			if wt.prev != nil && h < len(wt.prev.filt) && h < len(wt.prev.blks) && wt.prev.blks[h] != b &&
				wt.prev.filt[h] == v.filt[h] {
				wt.failOwn("filter-header-survived-reorg", nil,
					"height %d: block changed from %s to %s but the committed filter header is unchanged",
					h, short(wt.prev.blks[h].Hash), short(b.Hash))
			}
			if wt.cfValue {
				wt.failOwn("false-filter-header-committed", map[string]string{"lie": w.lieKindAt(int32(h))},
					"height %d (block %s): committed filter header %s, true one is %s", h, short(b.Hash), short(v.filt[h]), short(want))
			}
			w.rc.Probe("unrefutable_false_filter_header_committed")
			break
		}
	}

	// --- C02: how did the stored chain change since the last observation ---
	if wt.prev != nil {
		wt.transition(wt.prev, v)
	}
	if wt.onView != nil {
		wt.onView(wt.prev, v)
	}
	wt.prev = v
	w.rc.State(fmt.Sprintf("bt=%s|ft=%s|peers=%d", bucket(int(v.tip())), bucket(len(v.filt)-1), w.nConnected()))
}

func (wt *watcher) transition(prev, cur *storeView) {
	w := wt.w
	pt, ct := prev.tipBlock(), cur.tipBlock()
	if pt == ct {
		return
	}
	fork := chainmodel.ForkPoint(pt, ct)
	switch {
	case fork == pt:
		wt.nExtend++
		return // pure extension
	case fork == ct:
		// Headers were discarded without replacement. Legitimate only when
		// the discarded branch failed a checkpoint: the new tip is then
		// the previous checkpoint (or genesis) and the old branch does not
		// lead to the next checkpoint.
		wt.nRollback++
		cpOK := false
		var nextCP *chainmodel.Block
		for _, cp := range w.params.Checkpoints {
			if cp.Height > ct.Height {
				nextCP = w.tree.ByHash[*cp.Hash]
				break
			}
		}
		isPrevCP := ct.Height == 0
		for _, cp := range w.params.Checkpoints {
			if cp.Height == ct.Height && *cp.Hash == ct.Hash {
				isPrevCP = true
			}
		}
		// The branch that failed is whatever led to an offered header at the
		// checkpoint height that is not the checkpoint (the stored headers
		// may first have been displaced by that branch in the same step):
		// such a header must exist on a chain through the new tip.
		if nextCP != nil && isPrevCP && pt.Height < nextCP.Height {
			for _, x := range w.tree.ByHash {
				if x.Height == nextCP.Height && x != nextCP && ct.IsAncestorOf(x) {
					cpOK = true
					break
				}
			}
		}
		if !cpOK {
			w.rc.Probe("rollback_without_checkpoint_failure")
			wt.failC02("work-decreased", map[string]string{"how": "rollback"},
				"stored tip went back from %d (%s) to its ancestor at %d without a checkpoint failure", pt.Height, short(pt.Hash), ct.Height)
		}
		w.rc.Probe("checkpoint_failure_rollback")
		return
	}
	// A competing branch displaced headers.
	wt.nReorg++
	w.rc.Probe("reorg_adopted")
	// A branch that forks below a hard-coded checkpoint and does not contain
	// it can never satisfy that checkpoint: headers displaced by a branch
	// that reaches the checkpoint are "discarded because their branch failed
	// a checkpoint", whatever the work so far (the client stores a batch up
	// to the checkpoint first and asks for the rest).
	ontoCheckpoint := false
	for _, cp := range w.params.Checkpoints {
		if cp.Height > fork.Height && cp.Height <= ct.Height && int(cp.Height) < len(cur.blks) && cur.blks[cp.Height] != nil &&
			cur.blks[cp.Height].Hash == *cp.Hash {
			ontoCheckpoint = true
		}
	}
	if ontoCheckpoint && ct.CumWork.Cmp(pt.CumWork) <= 0 {
		w.rc.Probe("reorg_onto_checkpointed_chain_with_less_work_so_far")
	}
	if !ontoCheckpoint && ct.CumWork.Cmp(pt.CumWork) <= 0 {
		rel := "less"
		if ct.CumWork.Cmp(pt.CumWork) == 0 {
			rel = "equal"
		}
		wt.failC02("reorg-not-heavier", map[string]string{"work": rel},
			"headers %d..%d were displaced by a branch to %d whose work is %s (old tip %s, new tip %s, fork at %d)",
			fork.Height+1, pt.Height, ct.Height, rel, short(pt.Hash), short(ct.Hash), fork.Height)
	}
	// Checkpoint floor: the newest checkpoint the accepted chain had reached.
	floor := int32(0)
	for _, cp := range w.params.Checkpoints {
		if cp.Height <= pt.Height {
			floor = cp.Height
		}
	}
	if fork.Height < floor {
		rel := "below-tip"
		if floor == pt.Height {
			rel = "tip-on-checkpoint"
		}
		wt.failC02("reorg-below-checkpoint", map[string]string{"checkpoint": rel},
			"a branch forking at height %d displaced headers although the accepted chain (tip %d) had reached the checkpoint at %d",
			fork.Height, pt.Height, floor)
	}
	if fork.Height == floor && floor > 0 {
		w.rc.Probe("reorg_fork_exactly_at_checkpoint")
	}
}

func (w *World) nConnected() int {
	n := 0
	for _, p := range w.peers {
		if p.connected() && p.shook {
			n++
		}
	}
	return n
}

// lieKindAt names the lie kind some node tells at height h ("" if none).
func (w *World) lieKindAt(h int32) string {
	for _, p := range w.peers {
		if k := p.beh.CFLies[h]; k != lieNone {
			return lieNames[k]
		}
	}
	return "none-at-height"
}

func depthClass(d int) string {
	switch {
	case d == 0:
		return "tip"
	case d <= 3:
		return "1-3"
	}
	return "4+"
}

func bucket(n int) string {
	switch {
	case n == 0:
		return "0"
	case n <= 3:
		return "1-3"
	case n <= 10:
		return "4-10"
	case n <= 30:
		return "11-30"
	case n <= 100:
		return "31-100"
	case n <= 999:
		return "101-999"
	}
	return "1000+"
}
