package e1

import (
	"fmt"
	"os"
	"runtime"
	"testing"
	"testing/synctest"
	"time"

	"github.com/btcsuite/btcd/chaincfg/v2"
	"github.com/btcsuite/btcd/chainhash/v2"
	"github.com/btcsuite/btcd/wire/v2"

	"verif/sim/chainmodel"
	"verif/sim/core"
	"verif/sim/e3"
)

func init() {
	core.Register("C01", func(t *testing.T, rc *core.RunCtx) { runBubble(t, rc, runHeaders) })
	core.Register("C02", func(t *testing.T, rc *core.RunCtx) { runBubble(t, rc, runHeaders) })
}

// runBubble runs body inside a bubble, swallowing the "run abandoned" unwind.
func runBubble(t *testing.T, rc *core.RunCtx, body func(t *testing.T, rc *core.RunCtx)) {
	e3.Bubble(t, rc, func() {
		defer func() {
			if r := recover(); r != nil {
				if _, ok := r.(abandonRun); ok {
					return
				}
				if _, ok := r.(chainmodel.DifficultyRunaway); ok {
					// the model miner cannot follow the scenario any
					// further (see chainmodel): no verdict
					rc.Probe("run_ended_model_difficulty_runaway")
					return
				}
				panic(r)
			}
		}()
		body(t, rc)
	})
}

// chainPlan is the model tree of one run: a main chain, forks, and which of
// the tips are fully valid.
type chainPlan struct {
	main  *chainmodel.Block
	forks []*chainmodel.Block // fork tips (valid or tainted)
	salt  uint32
}

var breakRules = []string{"pow", "bits", "median-time", "version", "future-time", "bits-noclamp"}

// pickRule draws a rule that the header at the given height can break under
// the run's parameters (a version below the floor is a violation only from the
// floor height on).
func (w *World) pickRule(height int32) string {
	for {
		r := breakRules[w.tp.Intn(len(breakRules))]
		if r == "version" && height < w.params.BIP0034Height {
			continue
		}
		return r
	}
}

// mineChain extends parent by n blocks ending near endTime with the given
// spacing; breakAt (1-based index, 0 = none) makes that block invalid in rule.
func (w *World) mineChain(parent *chainmodel.Block, n int, spacing time.Duration, endTime time.Time,
	breakAt int, rule string, salt *uint32, ntxPct int) *chainmodel.Block {

	b := parent
	for i := 1; i <= n; i++ {
		*salt++
		ts := endTime.Add(-time.Duration(n-i) * spacing)
		o := chainmodel.MineOpts{Time: ts, Salt: *salt, PayTo: int(*salt) % 6}
		if ntxPct > 0 && w.tp.Chance(ntxPct, 100) {
			o.NTx = 1 + w.tp.Intn(2)
			o.OpReturn = w.tp.Chance(1, 3)
			o.OddScript = w.tp.Chance(1, 4)
		}
		if i == breakAt {
			o.Break = rule
			if rule == "future-time" {
				o.Time = w.epoch.Add(240 * time.Hour)
			}
		}
		b = w.tree.Extend(b, o)
		if os.Getenv("VERIF_DEBUG_MINE") != "" {
			w.rc.Logf("mined %d %s ts=%s (asked %s) mtp(parent chain)=%s", b.Height, short(b.Hash), b.Hdr.Timestamp.UTC().Format("15:04:05"), ts.UTC().Format("15:04:05"),
				chainmodel.MedianTimePast(b.Parent.Headers()).UTC().Format("15:04:05"))
		}
	}
	return b
}

// pickSpacing draws a block spacing for n blocks such that retargeting cannot
// push the mining cost of the model chain beyond about 2^14 hashes per block
// (blocks faster than the 10-minute target make every retarget up to 4x
// harder).
func pickSpacing(tp *core.Tape, p *chaincfg.Params, n int, fast bool) time.Duration {
	opts := []time.Duration{30 * time.Second, 2 * time.Minute, 5 * time.Minute, 10 * time.Minute, 25 * time.Minute}
	lo := 0
	if !p.PoWNoRetargeting {
		retargets := n / int(chainmodel.BlocksPerRetarget(p))
		switch {
		case retargets > 9:
			lo = 3
		case retargets > 4:
			lo = 2
		}
	}
	if fast {
		return opts[lo]
	}
	return opts[lo+tp.Intn(len(opts)-lo)]
}

// headerParams draws chain parameters for a header-sync run.
func headerParams(tp *core.Tape) *chaincfg.Params {
	o := chainmodel.ParamOpts{RetargetInterval: []int{0, 4, 6, 8, 16}[tp.Intn(5)]}
	o.ReduceMinDifficulty = tp.Chance(1, 4)
	if tp.Chance(1, 4) {
		o.VersionFloor = int32(1 + tp.Intn(10))
	}
	return chainmodel.NewParams(o)
}

// runHeaders is the engine body shared by C01 and C02: header sync against
// any mix of honest and dishonest nodes, with forks, reorganisations,
// unsolicited and duplicated messages and disconnects.
func runHeaders(t *testing.T, rc *core.RunCtx) {
	tp := rc.Tape
	params := headerParams(tp)
	w := newWorld(t, rc, params)
	thorough := rc.Tier == "thorough"

	// Mode: "adopt" is the single honest reliable node configuration in
	// which the adoption clause of C02 is decidable; "mix" is any mix.
	adopt := rc.Prop == "C02" && tp.Chance(1, 3)

	maxN := 60
	if thorough {
		maxN = 200
	}
	n := tp.Range(2, maxN)
	if tp.Chance(1, 3) {
		n = tp.Range(2, 12)
	}
	spacing := pickSpacing(tp, params, n, false)
	plan := &chainPlan{}
	tipTime := w.epoch.Add(-time.Duration(1+tp.Intn(30)) * time.Minute)
	plan.main = w.mineChain(w.tree.Genesis, n, spacing, tipTime, 0, "", &plan.salt, 0)
	mainChain := plan.main.Chain()

	// Checkpoints on the main chain.
	var cps []chaincfg.Checkpoint
	if tp.Chance(1, 2) {
		k := 1 + tp.Intn(2)
		last := int32(0)
		for i := 0; i < k; i++ {
			lo := int(last) + 1
			if lo > n {
				break
			}
			h := int32(tp.Range(lo, n))
			if tp.Chance(1, 4) {
				h = int32(n) // tip exactly on a checkpoint
			}
			hash := mainChain[h].Hash
			cps = append(cps, chaincfg.Checkpoint{Height: h, Hash: &hash})
			last = h
			if h == int32(n) {
				break
			}
		}
	}
	params.Checkpoints = cps

	// Forks.
	nForks := tp.Intn(4)
	if adopt {
		nForks = 1 + tp.Intn(3)
	}
	for i := 0; i < nForks; i++ {
		at := tp.Intn(n)
		switch tp.Intn(3) {
		case 0: // near the tip
			at = n - 1 - tp.Intn(minInt(n, 5))
		case 1: // near a checkpoint
			if len(cps) > 0 {
				c := int(cps[tp.Intn(len(cps))].Height)
				at = c - 2 + tp.Intn(4)
			}
		}
		if at < 0 {
			at = 0
		}
		if at > n-1 {
			at = n - 1
		}
		displaced := n - at
		var l int
		nearTie := 0
		lsel := tp.Intn(4)
		if !params.PoWNoRetargeting && tp.Chance(1, 3) {
			// where difficulty varies, "longer" and "heavier" come apart:
			// cut the fork where its work just passes (or just fails to
			// pass) the main chain's
			lsel = 4
		}
		switch lsel {
		case 4:
			l = displaced + 8
			nearTie = 1 + tp.Intn(2) // 1 just heavier, 2 just not heavier
		case 0:
			l = displaced // exactly as many headers (equal work unless difficulty changes)
		case 1:
			l = displaced + 1 + tp.Intn(3)
		case 2:
			l = 1 + tp.Intn(displaced)
		default:
			l = 1 + tp.Intn(displaced+4)
		}
		breakAt, rule := 0, ""
		if !adopt && nearTie == 0 && tp.Chance(2, 5) {
			breakAt = 1 + tp.Intn(l)
			rule = w.pickRule(int32(at + breakAt))
			if rule == "bits-noclamp" && !params.PoWNoRetargeting {
				// the limits only matter on the first header of a period
				bpr := int(chainmodel.BlocksPerRetarget(params))
				for j := 1; j <= l; j++ {
					if (at+j)%bpr == 0 {
						breakAt = j
						break
					}
				}
			}
		}
		fsp := spacing
		if tp.Chance(1, 2) {
			fsp = pickSpacing(tp, params, n+l, false)
		}
		// The fork's headers must lie after the fork point's median time;
		// mineChain clamps to MTP+1 when needed.
		end := tipTime.Add(time.Duration(tp.Intn(20)) * time.Minute)
		ft := w.mineChain(mainChain[at], l, fsp, end, breakAt, rule, &plan.salt, 0)
		if nearTie > 0 && breakAt == 0 {
			fc := ft.Chain()
			for hgt := at + 1; hgt < len(fc); hgt++ {
				if fc[hgt].CumWork.Cmp(plan.main.CumWork) > 0 {
					ft = fc[hgt]
					if nearTie == 2 && hgt-1 > at {
						ft = fc[hgt-1]
					}
					break
				}
			}
			rc.Probe("near_tie_fork")
		}
		plan.forks = append(plan.forks, ft)
		rc.Logf("fork %d: at %d len %d broken=%q@%d work-vs-main=%d", i, at, l, rule, breakAt, ft.CumWork.Cmp(plan.main.CumWork))
	}
	for _, c := range cps {
		rc.Logf("checkpoint %d %s (main has %s)", c.Height, short(*c.Hash), short(mainChain[c.Height].Hash))
	}
	rc.Logf("main chain %d blocks spacing %v retarget=%d mindiff=%v checkpoints=%v adopt=%v",
		n, spacing, chainmodel.BlocksPerRetarget(params), params.ReduceMinDifficulty, cpHeights(cps), adopt)

	tips := append([]*chainmodel.Block{plan.main}, plan.forks...)

	// Nodes.
	nPeers := 1 + tp.Intn(4)
	// adopt2: two honest reliable nodes; the first keeps its initial chain
	// (and is the client's sync peer), every later offer comes from the
	// second, i.e. from a peer that is not the sync peer; in half of these
	// runs neither node serves compact-filter data, so the client's filter
	// headers never catch up with its block headers.
	adopt2 := adopt && tp.Chance(1, 3)
	adoptNoCF := adopt2 && tp.Chance(1, 2)
	if adopt {
		nPeers = 1
		if adopt2 {
			nPeers = 2
		}
	}
	var adoptView *chainmodel.Block
	for i := 0; i < nPeers; i++ {
		beh := &Behaviour{BaseLatency: time.Duration(5+tp.Intn(200)) * time.Millisecond, Jitter: 40 * time.Millisecond}
		view := tips[tp.Intn(len(tips))]
		role := "node"
		if adopt {
			view = plan.main
			if tp.Chance(1, 2) {
				view = mainChain[tp.Intn(n+1)] // starts behind, grows later
			}
			if adoptView != nil {
				view = adoptView // the second node starts where the first is
			}
			adoptView = view
			beh.NoCF = adoptNoCF
		} else {
			if tp.Chance(1, 3) {
				beh.MaxHeaders = 1 + tp.Intn(12)
			}
			if tp.Chance(1, 4) {
				view = view.Ancestor(int32(tp.Intn(int(view.Height) + 1))) // lagging
				role = "lagging"
			}
			if tp.Chance(1, 5) {
				beh.DropPct = 10 + tp.Intn(30)
			}
			if tp.Chance(1, 5) {
				beh.DupPct = 20 + tp.Intn(50)
			}
			if tp.Chance(1, 8) {
				beh.CloseAfter = 2 + tp.Intn(8)
			}
			if tp.Chance(1, 10) {
				beh.SilentAfter = 3 + tp.Intn(6)
			}
		}
		p := w.addPeer(role, view, beh)
		if adopt2 && i == 1 {
			p.setUp(false) // becomes reachable after the initial sync from the first node
		}
		if !adopt && tp.Chance(1, 6) {
			p.claimHeight = view.Height + int32(1+tp.Intn(20)) // advertises more than it has
		}
		if !adopt && tp.Chance(1, 6) {
			p.timeSkew = time.Duration(tp.Intn(140)-70) * time.Minute
		}
		rc.Logf("node %s role=%s view=%d(%s tainted=%v) maxhdr=%d drop=%d dup=%d", p.addr.IP, role, view.Height, short(view.Hash),
			view.Tainted, beh.MaxHeaders, beh.DropPct, beh.DupPct)
	}

	if err := w.startClient(nil); err != nil {
		rc.Infra("start client: %v", err)
	}
	wt := w.newWatcher(rc.Prop)
	defer func() {
		if !w.shutdown(10 * time.Minute) {
			rc.Probe("cleanup_stop_did_not_return")
		}
	}()

	// Parked instants (hook H7): in one run in three the block handler is
	// held between two steps of one chain change (headers stored but the tip
	// not yet moved, old branch rolled back but the new one not yet written,
	// between two blocks of one rollback) and everything the client reports
	// is read at that very instant.
	w.burst = tp.Chance(1, 3)
	if tp.Chance(1, 3) {
		for i, k := 0, 1+tp.Intn(3); i < k; i++ {
			w.armYield(yieldSites[tp.Intn(3)], 1+tp.Intn(10), time.Duration(1+tp.Intn(2000))*time.Millisecond)
		}
		w.onParked = wt.instant
	}

	if adopt {
		runAdopt(w, wt, plan, tips)
		finishHeaders(w, wt, plan, adopt)
		return
	}

	// Director: a few events at tape-chosen moments.
	nEv := tp.Intn(7)
	if thorough {
		nEv = tp.Intn(14)
	}
	w.runFor(time.Duration(1+tp.Intn(20))*time.Second, nil)
	for i := 0; i < nEv && !w.halt; i++ {
		p := w.peers[tp.Intn(len(w.peers))]
		switch k := tp.Intn(100); {
		case k < 25: // the node's chain grows; it announces
			nb := 1 + tp.Intn(3)
			p.setView(w.mineChain(p.view, nb, time.Minute, time.Now().Add(-time.Duration(tp.Intn(50))*time.Second), 0, "", &plan.salt, 0))
			tips = append(tips, p.view)
			rc.Logf("t=%s event: %s grows by %d to %d and announces", w.clock(), p.addr.IP, nb, p.view.Height)
			p.announce(tp.Chance(1, 2), nb)
		case k < 50: // the node switches to another tip (reveals a reorg)
			nv := tips[tp.Intn(len(tips))]
			rc.Logf("t=%s event: %s switches view %d(%s) -> %d(%s) tainted=%v", w.clock(), p.addr.IP, p.view.Height, short(p.view.Hash),
				nv.Height, short(nv.Hash), nv.Tainted)
			p.setView(nv)
			p.fhCache = nil
			if tp.Chance(3, 4) {
				p.announce(tp.Chance(1, 2), 1+tp.Intn(6))
			}
		case k < 59 || k >= 97: // pipelined: headers valid up to an index, then, back to back, headers continuing from the valid part
			l := 2 + tp.Intn(3)
			bad := w.mineChain(p.view, l, time.Minute, time.Now().Add(-10*time.Second), l, w.pickRule(p.view.Height+int32(l)), &plan.salt, 0)
			cont := w.mineChain(bad.Parent, 1+tp.Intn(2), time.Minute, time.Now().Add(-5*time.Second), 0, "", &plan.salt, 0)
			tips = append(tips, bad, bad.Parent, cont)
			save := p.view
			p.setView(bad)
			rc.Logf("t=%s event: %s sends %d headers of which the last is invalid and, back to back, %d headers continuing from the valid part", w.clock(), p.addr.IP, l, cont.Height-bad.Parent.Height)
			rc.Probe("pipelined_continuation_of_abandoned_batch")
			p.announce(true, l)
			p.setView(cont)
			p.announce(true, int(cont.Height-bad.Parent.Height))
			if tp.Chance(1, 2) {
				p.setView(save)
			}
		case k < 65: // unsolicited headers from somewhere in its chain
			rc.Logf("t=%s event: %s sends unsolicited headers", w.clock(), p.addr.IP)
			p.announce(true, 1+tp.Intn(int(p.view.Height)+1))
		case k < 72: // announces a tainted extension of whatever it has: valid prefix, then a bad header
			l := 1 + tp.Intn(4)
			rule := w.pickRule(p.view.Height + int32(l))
			if !params.PoWNoRetargeting && tp.Chance(1, 3) {
				// a whole fast period ending in a first-of-period header
				// whose difficulty ignores the retarget limits
				bpr := int(chainmodel.BlocksPerRetarget(params))
				l = bpr - int(p.view.Height)%bpr
				rule = "bits-noclamp"
			}
			bad := w.mineChain(p.view, l, time.Minute, time.Now().Add(-10*time.Second), l, rule, &plan.salt, 0)
			tips = append(tips, bad)
			if l > 1 {
				// the valid prefix is a chain other nodes may build on
				tips = append(tips, bad.Parent)
			}
			save := p.view
			p.setView(bad)
			rc.Logf("t=%s event: %s offers %d headers, the last breaks %q", w.clock(), p.addr.IP, l, rule)
			p.announce(true, l)
			if tp.Chance(1, 2) {
				p.setView(save)
			}
		case k < 82: // connection drops; the node stays reachable
			rc.Logf("t=%s event: %s drops the connection", w.clock(), p.addr.IP)
			rc.Fault("net.close")
			p.disconnect("event")
		case k < 88: // the node goes away for a while
			rc.Logf("t=%s event: %s goes down", w.clock(), p.addr.IP)
			rc.Fault("net.down")
			p.setUp(false)
			p.disconnect("down")
			pp := p
			w.after(time.Duration(5+tp.Intn(120))*time.Second, func() { pp.setUp(true) })
		case k < 94: // a lookup by hash racing the reorganisation that removes the block
			w.readerRace(wt, p, plan, &tips)
		default: // announce current tip by inv
			p.announce(false, 1)
		}
		w.runFor(time.Duration(tp.Intn(40000))*time.Millisecond, nil)
		// When the client's in-memory chain has left the persisted tip
		// (reach probe), let some node build on exactly that in-memory
		// tip: the client's own getheaders (whose locator starts there)
		// then elicits headers that connect to it.
		if wt.listAhead && wt.listTip != nil && !wt.listTip.Tainted && tp.Chance(1, 2) {
			q := w.peers[tp.Intn(len(w.peers))]
			q.setView(w.mineChain(wt.listTip, 1+tp.Intn(2), time.Minute, time.Now().Add(-5*time.Second), 0, "", &plan.salt, 0))
			tips = append(tips, q.view)
			rc.Logf("t=%s event: %s builds on the client's in-memory tip %d and announces", w.clock(), q.addr.IP, wt.listTip.Height)
			rc.Probe("node_builds_on_in_memory_tip")
			q.announce(tp.Chance(1, 3), 1)
			w.runFor(time.Duration(1+tp.Intn(20))*time.Second, nil)
		}
	}
	w.runFor(time.Duration(10+tp.Intn(120))*time.Second, nil)
	finishHeaders(w, wt, plan, adopt)
}

// runAdopt: one honest reliable node; after each change of its chain the
// client must follow exactly when the offered chain is valid, strictly heavier
// and forks at or above the checkpoint floor, and must not move otherwise.
func runAdopt(w *World, wt *watcher, plan *chainPlan, tips []*chainmodel.Block) {
	tp, rc := w.tp, w.rc
	p := w.peers[0]
	two := len(w.peers) == 2
	// Initial sync.
	expect := func(what string) {
		w.runFor(3*time.Minute, nil)
		wt.check()
		got := wt.prev.tipBlock()
		want := adoptWant(w, wt.lastAdopt, p.view)
		if want == nil {
			rc.Probe("adopt_offer_misses_checkpoint")
			want = got
		}
		belowCP := false
		if cps := w.params.Checkpoints; len(cps) > 0 && wt.lastAdopt.Height <= cps[len(cps)-1].Height {
			belowCP = true
		}
		// (The single node stops being the sync peer once the client has
		// cut it, e.g. for a lighter offer, and it comes back advertising
		// fewer blocks than the client has.)
		if (two || p.clientCuts > 0) && what != "initial-sync" && (belowCP || time.Since(wt.lastAdopt.Hdr.Timestamp) > 23*time.Hour) {
			// An offer from a peer that is not the sync peer is looked at
			// only by a client that counts itself current (tip less than a
			// day old and above every hard-coded checkpoint): no
			// expectation otherwise.
			rc.Probe("adopt_offer_from_other_peer_to_client_not_current")
			want = got
		}
		// The adoption clause is about a batch the client was handed: if
		// no headers message ending at the offered tip went out (the client
		// never asked, e.g. because btcd's peer filtered its getheaders as
		// a duplicate), nothing was offered in full.
		if want == p.view && got != want && !p.hdrTipsSent[p.view.Hash] {
			rc.Probe("adopt_offer_never_requested")
			want = got
		}
		p.hdrTipsSent = nil
		if got != want {
			facts := map[string]string{"offer": what}
			rc.Failf("valid-heavier-chain-not-adopted-in-full", facts,
				"honest node %s serves tip %d (%s, work cmp vs previous client tip %d); client tip is %d (%s), expected %d (%s)",
				p.addr.IP, p.view.Height, short(p.view.Hash), p.view.CumWork.Cmp(wt.lastAdopt.CumWork), got.Height, short(got.Hash), want.Height, short(want.Hash))
		}
		wt.lastAdopt = got
		p.hdrOfferBase = got
		rc.Probe("adopt_" + what)
	}
	wt.lastAdopt = w.tree.Genesis
	p.hdrOfferBase = w.tree.Genesis
	expect("initial-sync")
	if two {
		// From here on every offer comes from the second node.
		p = w.peers[1]
		p.hdrOfferBase = wt.lastAdopt
		p.setUp(true)
		w.runFor(2*time.Minute, func() bool { return p.connected() && p.shook })
		rc.Probe("adopt_offers_from_a_peer_that_is_not_the_sync_peer")
	}
	steps := 1 + tp.Intn(5)
	for i := 0; i < steps; i++ {
		if two {
			// (the client may have dropped the node for a lighter offer)
			w.runFor(time.Minute, func() bool { return p.connected() && p.shook })
		}
		if tp.Chance(1, 3) {
			nb := 1 + tp.Intn(3)
			p.setView(w.mineChain(p.view, nb, time.Minute, time.Now().Add(-time.Duration(tp.Intn(50))*time.Second), 0, "", &plan.salt, 0))
			tips = append(tips, p.view)
			rc.Logf("t=%s adopt: node extends to %d", w.clock(), p.view.Height)
			p.announce(tp.Chance(1, 2), nb)
			expect("extension")
			continue
		}
		nv := tips[tp.Intn(len(tips))]
		rc.Logf("t=%s adopt: node switches %d(%s) -> %d(%s)", w.clock(), p.view.Height, short(p.view.Hash), nv.Height, short(nv.Hash))
		p.setView(nv)
		if tp.Chance(1, 2) {
			p.announce(false, 1)
		} else {
			// Headers announcement of the whole new branch from the fork
			// with the client's chain, as a node that was sent
			// "sendheaders" would.
			fork := chainmodel.ForkPoint(wt.lastAdopt, nv)
			p.announce(true, int(nv.Height-fork.Height))
		}
		expect("switch")
	}
}

// adoptWant computes what the statement requires after the single node
// offered `offer` to a client at `cur`.
func adoptWant(w *World, cur, offer *chainmodel.Block) *chainmodel.Block {
	if offer.IsAncestorOf(cur) {
		return cur
	}
	// An offer that misses a checkpoint is not a valid branch; what the
	// client may keep of it is not fixed by the statement: no expectation.
	if chainmodel.ValidateChain(w.params, offer.Headers(), time.Time{}) != nil {
		return nil
	}
	if cur.IsAncestorOf(offer) {
		return offer
	}
	fork := chainmodel.ForkPoint(cur, offer)
	floor := int32(0)
	for _, cp := range w.params.Checkpoints {
		if cp.Height <= cur.Height {
			floor = cp.Height
		}
	}
	switch {
	case fork.Height < floor:
		w.rc.Probe("adopt_offer_forks_below_checkpoint_floor")
		return cur
	case offer.CumWork.Cmp(cur.CumWork) < 0:
		w.rc.Probe("adopt_offer_lighter")
		return cur
	case offer.CumWork.Cmp(cur.CumWork) == 0:
		w.rc.Probe("adopt_offer_equal_work")
		return cur
	}
	w.rc.Probe("adopt_offer_heavier_fork")
	return offer
}

func finishHeaders(w *World, wt *watcher, plan *chainPlan, adopt bool) {
	wt.check()
	rc := w.rc
	v := wt.prev
	rc.Res.Steps = w.steps
	rc.Res.Nontrivial = v.tip() > 0 || w.net.nDials() > 1
	if wt.nReorg > 0 {
		rc.Probe("run_with_reorg")
	}
	rc.Res.Sample = map[string]any{"main": plan.main.Height, "forks": len(plan.forks), "nodes": len(w.peers),
		"client_tip": v.tip(), "reorgs": wt.nReorg, "extends": wt.nExtend, "dials": w.net.nDials(), "adopt_mode": adopt,
		"checkpoints": cpHeights(w.params.Checkpoints)}
}

func cpHeights(cps []chaincfg.Checkpoint) []int32 {
	var out []int32
	for _, c := range cps {
		out = append(out, c.Height)
	}
	return out
}

func minInt(a, b int) int {
	if a < b {
		return a
	}
	return b
}

var _ = fmt.Sprintf
var _ chainhash.Hash

// readerRace: a lookup by hash of a block that is being reorganised out,
// interleaved with that reorganisation. The announcement of a heavier branch
// is in flight; the simulator's own reader calls GetBlockHeader for a block of
// the branch about to be displaced, and at the end of the reader's first
// database transaction (hookDB) the announcement is handed to the client and
// the reader yields the processor until the block handler has finished the
// reorganisation or cannot get on (it waits for the store lock the reader
// holds). Whatever the reader then gets must be the header it asked for, or an
// error.
func (w *World) readerRace(wt *watcher, p *SimPeer, plan *chainPlan, tips *[]*chainmodel.Block) {
	rc, tp := w.rc, w.tp
	synctest.Wait()
	if w.parkedAt() != "" || !p.connected() || !p.shook || !w.running {
		return
	}
	if wt.changed() {
		wt.check()
	}
	if wt.prev == nil {
		return
	}
	cur := wt.prev.tipBlock()
	if cur == nil || cur.Tainted || cur.Height < 1 {
		return
	}
	d := 1 + tp.Intn(minInt(3, int(cur.Height)))
	base := cur.Ancestor(cur.Height - int32(d))
	nv := w.mineChain(base, d+1+tp.Intn(2), time.Minute, time.Now().Add(-5*time.Second), 0, "", &plan.salt, 0)
	if nv.CumWork.Cmp(cur.CumWork) <= 0 || chainmodel.ValidateChain(w.params, nv.Headers(), time.Time{}) != nil {
		return
	}
	*tips = append(*tips, nv)
	p.setView(nv)
	p.fhCache = nil
	victim := cur.Ancestor(cur.Height - int32(tp.Intn(d)))
	rc.Logf("t=%s event: reader race: %s announces a heavier branch from %d to %d while GetBlockHeader(%s, height %d) is under way",
		w.clock(), p.addr.IP, base.Height, nv.Height, short(victim.Hash), victim.Height)
	p.announce(true, int(nv.Height-base.Height))
	before := w.yieldCount("headers.beforeTipUpdate")
	spins := 0
	w.armDB(func(string) {
		w.flushEvents(5 * time.Second)
		for spins = 0; spins < 20000 && w.yieldCount("headers.beforeTipUpdate") == before; spins++ {
			runtime.Gosched()
		}
	})
	type res struct {
		hdr *wire.BlockHeader
		err error
	}
	ch := make(chan res, 1)
	go func() {
		h, err := w.cs.GetBlockHeader(&victim.Hash)
		ch <- res{h, err}
	}()
	r := <-ch
	w.armDB(nil)
	rc.Probe("reader_race")
	if w.yieldCount("headers.beforeTipUpdate") != before && spins < 20000 {
		rc.Probe("reader_race_reorg_finished_inside_lookup")
	}
	if r.err == nil && r.hdr.BlockHash() != victim.Hash {
		wt.fail("lookup-disagree", map[string]string{"by": "hash-during-reorg"},
			"GetBlockHeader(%s) (height %d, being reorganised out) returned the header %s", short(victim.Hash), victim.Height, short(r.hdr.BlockHash()))
	}
}
