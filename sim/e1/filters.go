package e1

import (
	"fmt"
	"math/big"
	"strings"
	"testing"
	"testing/synctest"
	"time"

	"github.com/btcsuite/btcd/chainhash/v2"
	"github.com/btcsuite/btcd/wire/v2"
	"github.com/lightninglabs/neutrino"
	"github.com/lightninglabs/neutrino/blockntfns"

	"verif/sim/chainmodel"
	"verif/sim/core"
)

func init() {
	core.Register("C03", func(t *testing.T, rc *core.RunCtx) { runBubble(t, rc, runFilters) })
	core.Register("C19", func(t *testing.T, rc *core.RunCtx) { runBubble(t, rc, runFilters) })
	core.Register("C04", func(t *testing.T, rc *core.RunCtx) { runBubble(t, rc, runFilters) })
}

// simSub is one block subscription opened through the public
// RescanChainSource.Subscribe, with the chain its holder would reconstruct.
type simSub struct {
	idx    int
	sub    *blockntfns.Subscription
	height uint32
	held   []wire.BlockHeader // index == height
	nConn  int
	nDisc  int
	closed bool
	// disc: hashes of the blocks announced as disconnected since the last
	// completed observation of the stores; midChange: opened while a
	// block-manager goroutine was parked half-way through a chain change.
	disc      []chainhash.Hash
	midChange bool
}

// subWatch drains every subscription at quiescent points and replays the
// events on the holder's chain (oracle of C19).
type subWatch struct {
	w     *World
	wt    *watcher
	subs  []*simSub
	check bool // report C19 clauses
	// kick, if set, makes the chain change now (used while the goroutine
	// that computed a new subscription's backlog is parked before the
	// subscription is registered).
	kick func()
}

func (sw *subWatch) open(height uint32) *simSub {
	w := sw.w
	// Whatever the stores hold now is observed (and every older
	// subscription judged on it) before the new one exists.
	if sw.wt != nil && w.running && w.parkedAt() == "" && sw.wt.changed() {
		sw.wt.check()
	}
	// The holder of a subscription from height h is assumed to hold the
	// client's committed chain up to h as of now (quiescent point).
	var held []wire.BlockHeader
	_, ft, err := w.cs.RegFilterHeaders.ChainTip()
	if err != nil {
		return nil
	}
	upto := height
	if height == 0 {
		upto = ft // no backlog wanted: the holder starts from the committed tip
	}
	if height <= ft {
		for h := uint32(0); h <= upto; h++ {
			hdr, err := w.cs.BlockHeaders.FetchHeaderByHeight(h)
			if err != nil {
				return nil
			}
			held = append(held, *hdr)
		}
	}
	src := &neutrino.RescanChainSource{ChainService: w.cs}
	type res struct {
		s   *blockntfns.Subscription
		err error
	}
	ch := make(chan res, 1)
	go func() {
		s, err := src.Subscribe(height)
		ch <- res{s, err}
	}()
	synctest.Wait()
	throughPark := false
	if w.parkedAt() == "ntfns.backlogBuilt" {
		// The backlog is computed, the subscription not yet registered,
		// and whoever does both is parked in between (hook H7): let the
		// chain change meanwhile, then wait for the call.
		throughPark = true
		w.rc.Probe("subscription_parked_between_backlog_and_registration")
		if sw.kick != nil {
			sw.kick()
		}
		end := time.Now().Add(time.Minute)
		for len(ch) == 0 && time.Now().Before(end) && !w.halt {
			w.stepUntil(end, nil)
			synctest.Wait()
		}
	}
	select {
	case r := <-ch:
		if r.err != nil {
			w.rc.Probe("subscribe_refused")
			w.rc.Logf("t=%s subscribe(%d) refused: %v", w.clock(), height, r.err)
			if height <= ft && w.parkedAt() != "cfheaders.afterStoreWrite" && !throughPark && sw.check {
				w.rc.Failf("backlog-refused-at-or-below-committed-tip", nil,
					"Subscribe(%d) was refused (%v) although the committed filter tip is %d (parked at %q)", height, r.err, ft, w.parkedAt())
			}
			return nil
		}
		if height > ft && !throughPark {
			if sw.check {
				w.rc.Failf("backlog-beyond-committed-tip-accepted", nil, "Subscribe(%d) succeeded although the committed filter tip is %d", height, ft)
			}
			r.s.Cancel()
			return nil
		}
		s := &simSub{idx: len(sw.subs), sub: r.s, height: height, held: held, midChange: w.parkedAt() != ""}
		sw.subs = append(sw.subs, s)
		w.rc.Logf("t=%s subscribe(%d) -> sub %d", w.clock(), height, s.idx)
		// The backlog, which is what the subscription holds at this
		// (quiescent or parked) instant, must be exactly the committed
		// blocks above the height: heights height+1..committed filter tip,
		// each with the stored header. (Not judged while a filter-header
		// batch is stored but not yet announced: its blocks then arrive as
		// events.)
		if height != 0 && w.parkedAt() != "cfheaders.afterStoreWrite" && !throughPark {
			got := 0
			for {
				var n blockntfns.BlockNtfn
				select {
				case n = <-s.sub.Notifications:
				default:
				}
				if n == nil {
					break
				}
				got++
				want := height + uint32(got)
				if _, isConn := n.(*blockntfns.Connected); !isConn || n.Height() != want {
					sw.fail("backlog-not-the-committed-blocks", map[string]string{"how": "order"},
						"sub %d (from height %d, committed filter tip %d): backlog entry %d is %T for height %d", s.idx, height, ft, got, n, n.Height())
				} else if hdr, err := w.cs.BlockHeaders.FetchHeaderByHeight(want); err != nil || hdr.BlockHash() != hashOf(n.Header()) {
					hh := n.Header()
					sw.fail("backlog-not-the-committed-blocks", map[string]string{"how": "header"},
						"sub %d (from height %d): backlog entry for height %d carries %s, the store has another header there (%v)", s.idx, height, want, short(hh.BlockHash()), err)
				}
				sw.replay(s, n)
				synctest.Wait()
			}
			if uint32(got) != ft-height {
				sw.fail("backlog-not-the-committed-blocks", map[string]string{"how": "length"},
					"sub %d: Subscribe(%d) with the committed filter tip at %d delivered a backlog of %d blocks, expected %d (parked at %q)",
					s.idx, height, ft, got, ft-height, w.parkedAt())
			}
			w.rc.Probe("backlog_checked")
		}
		return s
	default:
		if sw.check {
			w.rc.Failf("subscribe-blocked", nil, "Subscribe(%d) did not return although the client is quiescent", height)
		}
		return nil
	}
}

// drain reads everything currently deliverable from every subscription and
// replays it.
func (sw *subWatch) drain() {
	w := sw.w
	for round := 0; round < 1000; round++ {
		progress := false
		for _, s := range sw.subs {
		inner:
			for !s.closed {
				select {
				case n, ok := <-s.sub.Notifications:
					if !ok {
						s.closed = true
						break inner
					}
					progress = true
					sw.replay(s, n)
				default:
					break inner
				}
			}
		}
		if !progress {
			return
		}
		synctest.Wait()
	}
	w.rc.Infra("subscription drain did not settle")
}

func (sw *subWatch) fail(clause string, facts map[string]string, format string, a ...any) {
	if sw.check {
		sw.w.rc.Failf(clause, facts, format, a...)
	}
}

func (sw *subWatch) replay(s *simSub, n blockntfns.BlockNtfn) {
	w := sw.w
	hdr := n.Header()
	h := n.Height()
	switch ev := n.(type) {
	case *blockntfns.Connected:
		s.nConn++
		tip := uint32(len(s.held) - 1)
		if h <= tip && s.held[h].BlockHash() == hdr.BlockHash() {
			w.rc.Probe("connected_event_for_block_already_held")
			return // skip a connected event for a block already held
		}
		if h != tip+1 || hdr.PrevBlock != s.held[tip].BlockHash() {
			sw.fail("connected-out-of-order", map[string]string{"backlog": fmt.Sprint(s.height != 0)},
				"sub %d (from height %d): connected event for height %d (%s, prev %s) but the holder's tip is %d (%s)",
				s.idx, s.height, h, short(hdr.BlockHash()), short(hdr.PrevBlock), tip, short(s.held[tip].BlockHash()))
			return
		}
		s.held = append(s.held, hdr)
	case *blockntfns.Disconnected:
		s.nDisc++
		s.disc = append(s.disc, hdr.BlockHash())
		tip := uint32(len(s.held) - 1)
		if h > tip {
			w.rc.Probe("disconnected_event_for_block_never_held")
			return // block whose filter header was never committed
		}
		if h != tip || s.held[tip].BlockHash() != hdr.BlockHash() {
			sw.fail("disconnected-wrong-block", nil,
				"sub %d: disconnected event for height %d (%s) but the holder's tip is %d (%s)",
				s.idx, h, short(hdr.BlockHash()), tip, short(s.held[tip].BlockHash()))
			return
		}
		s.held = s.held[:tip]
		nt := ev.ChainTip()
		if h == 0 || nt.BlockHash() != s.held[tip-1].BlockHash() {
			sw.fail("disconnected-wrong-new-tip", nil,
				"sub %d: disconnected event for height %d names %s as the tip afterwards, the holder has %s",
				s.idx, h, short(nt.BlockHash()), short(s.held[len(s.held)-1].BlockHash()))
		}
	}
}

func hashOf(h wire.BlockHeader) chainhash.Hash { return h.BlockHash() }

// removed checks, for the change of the stored block-header chain between two
// completed observations, that every header the change removed was announced
// as disconnected, highest first, to every subscription that was open
// throughout (other blocks connected and disconnected in between may appear as
// well).
func (sw *subWatch) removed(prev, cur *storeView) {
	defer func() {
		for _, s := range sw.subs {
			s.disc, s.midChange = nil, false
		}
	}()
	if prev == nil {
		return
	}
	k := 0
	for k+1 < len(prev.hdrs) && k+1 < len(cur.hdrs) && prev.hdrs[k+1].BlockHash() == cur.hdrs[k+1].BlockHash() {
		k++
	}
	if k+1 >= len(prev.hdrs) {
		return
	}
	sw.w.rc.Probe("rollback_observed_with_subscribers")
	if len(prev.filt) <= len(prev.hdrs)-1 {
		sw.w.rc.Probe("rollback_of_blocks_above_filter_tip_observed")
	}
	for _, s := range sw.subs {
		if s.closed || s.midChange {
			continue
		}
		i := 0
		for h := len(prev.hdrs) - 1; h > k; h-- {
			want := prev.hdrs[h].BlockHash()
			for i < len(s.disc) && s.disc[i] != want {
				i++
			}
			if i == len(s.disc) {
				sw.fail("removed-header-not-announced", map[string]string{"above_filter_tip": fmt.Sprint(h > len(prev.filt)-1)},
					"sub %d: the header at height %d (%s) was removed from the chain (rollback from %d to %d) but no disconnected event for it arrived in order (%d disconnected events since the last observation; filter tip before: %d)",
					s.idx, h, short(want), len(prev.hdrs)-1, k, len(s.disc), len(prev.filt)-1)
				break
			}
			i++
		}
	}
}

// compare checks, at a quiescent point after draining, that every holder's
// chain equals the committed chain up to the committed filter tip.
func (sw *subWatch) compare(v *storeView) {
	ft := len(v.filt) - 1
	for _, s := range sw.subs {
		if s.closed {
			continue
		}
		if len(s.held)-1 != ft {
			sw.fail("events-do-not-reproduce-chain", map[string]string{"how": "length", "backlog": fmt.Sprint(s.height != 0)},
				"sub %d (from height %d): after replaying %d connected and %d disconnected events the holder has %d blocks, the committed filter tip is %d",
				s.idx, s.height, s.nConn, s.nDisc, len(s.held)-1, ft)
			continue
		}
		for h := 0; h <= ft; h++ {
			if s.held[h].BlockHash() != v.hdrs[h].BlockHash() {
				sw.fail("events-do-not-reproduce-chain", map[string]string{"how": "content", "backlog": fmt.Sprint(s.height != 0)},
					"sub %d: holder has %s at height %d, the committed chain has %s", s.idx, short(s.held[h].BlockHash()), h, short(v.hdrs[h].BlockHash()))
				break
			}
		}
	}
}

// runFilters: header and filter-header sync against honest nodes, nodes lying
// about filter data at chosen heights, silent and lagging nodes, with growth
// and reorganisations while filter headers are being fetched; subscriptions
// opened at drawn moments. Subject C03 (filter headers), C19 (events) or C04
// (convergence).
func runFilters(t *testing.T, rc *core.RunCtx) {
	if isLongRun(rc) {
		runLongFilters(t, rc)
		return
	}
	if isDirectedC04(rc) {
		runDirectedC04(t, rc)
		return
	}
	tp := rc.Tape
	params := chainmodel.NewParams(chainmodel.ParamOpts{RetargetInterval: []int{0, 8}[tp.Intn(2)]})
	w := newWorld(t, rc, params)
	thorough := rc.Tier == "thorough"
	maxN := 30
	if thorough {
		maxN = 120
	}
	n := tp.Range(1, maxN)
	if tp.Chance(1, 3) {
		n = tp.Range(1, 8)
	}
	plan := &chainPlan{}
	spacing := pickSpacing(tp, params, n+20, false)
	tipTime := w.epoch.Add(-time.Duration(1+tp.Intn(30)) * time.Minute)
	plan.main = w.mineChain(w.tree.Genesis, n, spacing, tipTime, 0, "", &plan.salt, 70)

	// Lies: heights and kinds, shared by all liars of the run or per liar.
	provableOnly := tp.Chance(3, 4)
	// Several liars often pick the same height and lie about it in
	// different ways (one round of blame only removes the liars it can
	// prove wrong at that point).
	// (In gated runs only heights above the initial chain are ever asked
	// of the liars, so lies go there.)
	sharedHeight := int32(n + 1 + tp.Intn(3))
	nDrawn := 0
	drawLies := func() map[int32]int {
		lies := map[int32]int{}
		k := 1 + tp.Intn(2)
		nDrawn++
		if tp.Chance(1, 2) {
			lies[sharedHeight] = []int{lieOmit, lieHashOnly, lieNoServe}[nDrawn%3]
			k--
		}
		for i := 0; i < k; i++ {
			h := int32(1 + tp.Intn(n+3))
			if tp.Chance(1, 3) {
				h = int32(n + 1 + tp.Intn(4))
			} else if tp.Chance(1, 2) {
				h = int32(n - 3 + tp.Intn(7)) // near the tip: inside reorg depth
				if h < 1 {
					h = 1
				}
			}
			kind := 1 + tp.Intn(3) // hash-only, omit, no-serve
			if !provableOnly && tp.Chance(1, 2) {
				kind = lieExtra + tp.Intn(2)
			}
			lies[h] = kind
		}
		return lies
	}

	// "race" runs (C03 only) steer at one schedule: a node lies about the
	// next block, another never answers filter requests (so the query to
	// all nodes stays open for its full timeout), and the honest chain
	// reorganises that block away while the query is open.
	race := rc.Prop == "C03" && tp.Chance(1, 6)
	if race {
		provableOnly = true
	}

	// gate: the other nodes become reachable only after the honest node is
	// connected. Always so where C03's value clause is asserted; in C04 runs
	// mostly so, because otherwise a lone liar's filter headers are committed
	// unopposed and the honest nodes that contradict them later are banned
	// (known finding C04-unopposed-false-filter-header), which would starve
	// the rest of the space.
	gate := provableOnly && rc.Prop == "C03" || rc.Prop == "C04" && tp.Chance(3, 4)

	// Nodes. Node 0 is honest, reliable and always up.
	nPeers := 1 + tp.Intn(4)
	if race {
		nPeers = 3
	}
	hb := &Behaviour{BaseLatency: time.Duration(5+tp.Intn(100)) * time.Millisecond, Jitter: 20 * time.Millisecond}
	if rc.Prop == "C04" && !gate && tp.Chance(1, 2) {
		// the honest node is the slow one: it completes its handshake after
		// the others have been served
		hb.BaseLatency = time.Duration(300+tp.Intn(3000)) * time.Millisecond
	}
	if rc.Prop == "C04" && tp.Chance(1, 6) {
		// the first connection(s) to the honest node die during the
		// handshake; it has to be dialled again
		hb.HandshakeDrops = 1 + tp.Intn(2)
	}
	w.addPeer("honest", plan.main, hb)
	nLiars := 0
	for i := 1; i < nPeers; i++ {
		beh := &Behaviour{BaseLatency: time.Duration(5+tp.Intn(300)) * time.Millisecond, Jitter: 40 * time.Millisecond}
		role := "honest"
		view := plan.main
		k := tp.Intn(100)
		if race {
			k = []int{0, 0, 45}[i] // one liar, one node that ignores filter requests
		}
		switch {
		case k < 40:
			role = "cf-liar"
			beh.CFLies = drawLies()
			if race {
				beh.CFLies = map[int32]int{int32(n + 1): 1 + tp.Intn(3)}
			}
			nLiars++
		case k < 46:
			// answers every filter-header request correctly but appends
			// hashes beyond the requested stop block
			role = "cf-surplus"
			beh.CFSurplus = 1 + tp.Intn(3)
		case k < 52:
			role = "no-cf"
			beh.NoCF = true
		case k < 60:
			role = "lagging"
			view = plan.main.Ancestor(int32(tp.Intn(n + 1)))
		case k < 70:
			role = "flaky"
			beh.DropPct = 10 + tp.Intn(40)
			beh.DupPct = tp.Intn(40)
		case k < 78 && rc.Prop == "C04":
			role = "header-liar"
			l := 1 + tp.Intn(4)
			at := plan.main.Ancestor(int32(tp.Intn(n + 1)))
			view = w.mineChain(at, l, spacing, tipTime.Add(time.Minute), 1+tp.Intn(l), w.pickRule(at.Height+1), &plan.salt, 0)
			plan.forks = append(plan.forks, view)
		case k < 84 && rc.Prop == "C04":
			role = "silent"
			beh.SilentAfter = 1 + tp.Intn(5)
		}
		if rc.Prop == "C04" && !gate && tp.Chance(1, 3) {
			// tiny header batches: the header sync takes many round trips,
			// so that a sync peer can be lost in the middle of it
			// Withdrawn from the random mix at the end of the build (the
			// draw stays so that tapes keep their meaning): header sync
			// in tiny batches combined with reorganisations and growth
			// produced further variants of the known sync-peer findings
			// (C04 known findings 2 and 3) whose signatures could not all
			// be written down in time. Tiny batches remain in the directed
			// scenario "sync peer lost mid-sync" (latebetter.go).
			_ = 1 + tp.Intn(5)
		}
		p := w.addPeer(role, view, beh)
		if gate {
			// The honest node is to be among the responders of every
			// filter-header query: the others become reachable only once
			// it is connected.
			p.setUp(false)
		}
		if role == "header-liar" && tp.Chance(1, 2) {
			p.claimHeight = view.Height + int32(tp.Intn(10))
		}
		rc.Logf("node %s role=%s view=%d lies=%v", p.addr.IP, role, view.Height, liesString(beh.CFLies))
	}
	rc.Logf("main chain %d blocks retarget=%d nodes=%d liars=%d provableOnly=%v", n, chainmodel.BlocksPerRetarget(params), nPeers, nLiars, provableOnly)

	if err := w.startClient(func(cfg *neutrino.Config) {
		if tp.Chance(1, 3) {
			cfg.PersistToDisk = true
		}
	}); err != nil {
		rc.Infra("start client: %v", err)
	}
	wt := w.newWatcher(rc.Prop)
	wt.cfValue = provableOnly && rc.Prop == "C03"
	if gate {
		w.runFor(time.Minute, func() bool { return w.peers[0].shook && w.peers[0].connected() })
		for _, p := range w.peers {
			p.setUp(true)
		}
	}
	if wt.cfValue {
		w.observers = append(w.observers, func() {
			// If the client ever loses the honest node, later queries may
			// legitimately see liars only: stop asserting the value clause.
			if wt.cfValue && (w.peers[0].sessions > 1 || !w.peers[0].connected()) {
				// ... unless it lost it by banning it: up to here the honest
				// node answered every query and every lie was provable.
				if w.cs.IsBanned(w.peers[0].addr.String()) {
					rc.Failf("honest-node-banned", map[string]string{"liars": fmt.Sprint(nLiars > 0)},
						"the client banned the honest, reliable node %s although it had answered every filter-header query and all lies told were provable", w.peers[0].addr.IP)
				}
				wt.cfValue = false
				rc.Probe("value_clause_dropped_honest_node_lost")
			}
		})
	}
	sw := &subWatch{w: w, wt: wt, check: rc.Prop == "C19"}
	w.observers = append(w.observers, func() {
		if w.running {
			sw.drain()
		}
	})
	wt.onView = func(prev, cur *storeView) {
		sw.drain()
		sw.removed(prev, cur)
		sw.compare(cur)
	}
	defer func() {
		for _, s := range sw.subs {
			if !s.closed {
				go s.sub.Cancel()
			}
		}
		if !w.shutdown(10 * time.Minute) {
			rc.Probe("cleanup_stop_did_not_return")
		}
	}()
	// A subscription from the very start (height 0: no backlog), holder
	// knows only genesis.
	sw.open(0)

	var parkKick func(site string)
	// Parked instants (hook H7): in one run in three, block-manager
	// goroutines are held between two steps of one chain change (filter
	// headers stored but the tip not yet moved, between two connected
	// events of one batch, between two blocks of one rollback, headers
	// stored but the header tip not yet moved) and a subscription is opened
	// at that very instant.
	if tp.Chance(1, 3) {
		for i, k := 0, 1+tp.Intn(3); i < k; i++ {
			w.armYield(yieldSites[tp.Intn(len(yieldSites))], 1+tp.Intn(8), time.Duration(1+tp.Intn(3000))*time.Millisecond)
		}
		if rc.Prop == "C19" && tp.Chance(1, 2) {
			w.armYield("ntfns.backlogBuilt", 1+tp.Intn(2), time.Duration(1+tp.Intn(3000))*time.Millisecond)
		}
		w.onParked = func(site string) {
			if site == "ntfns.backlogBuilt" {
				return // a subscription is being opened right now
			}
			if parkKick != nil {
				parkKick(site)
			}
			_, ft, err := w.cs.RegFilterHeaders.ChainTip()
			if err != nil {
				return
			}
			if sw.open(uint32(tp.Intn(int(ft)+2))) != nil {
				rc.Probe("subscription_opened_while_parked_" + site)
			}
		}
	}

	honestTip := plan.main
	unannounced := false
	follow := func(newTip *chainmodel.Block, announce bool) {
		for _, p := range w.peers {
			switch p.role {
			case "honest", "cf-liar", "no-cf", "flaky", "silent", "cf-surplus":
				p.setView(newTip)
				p.fhCache = nil
				will := announce && (p.idx == 0 || tp.Chance(1, 2))
				if p.connected() && (!will || !p.shook) {
					// a node the client is connected to learnt a block
					// and keeps it to itself (or is in the middle of its
					// handshake, its version message with the old height
					// already under way): as good as a lost announcement
					unannounced = true
				}
				if will {
					useHdr := tp.Chance(1, 3)
					nh := 1 + tp.Intn(2)
					if p.idx == 0 && useHdr && wt.prev != nil {
						// The reliable node announces by headers the way a
						// well-behaved node does: everything from the fork
						// with the chain it last saw the client have.
						nh = int(newTip.Height - chainmodel.ForkPoint(wt.prev.tipBlock(), newTip).Height)
					}
					p.announce(useHdr, nh)
				}
			}
		}
	}

	parkKick = func(site string) {
		// While the filter-header goroutine is held around the store write
		// of a batch, the honest side reorganises (one time in two): the
		// batch's last blocks are replaced.
		if (site != "cfheaders.beforeStoreWrite" && site != "cfheaders.afterStoreWrite") || honestTip.Height < 2 || !tp.Chance(1, 2) {
			return
		}
		depth := 1 + tp.Intn(minInt(int(honestTip.Height)-1, 3))
		at := honestTip.Ancestor(honestTip.Height - int32(depth))
		nt := w.mineChain(at, depth+1, time.Minute, time.Now().Add(-5*time.Second), 0, "", &plan.salt, 70)
		if nt.CumWork.Cmp(honestTip.CumWork) <= 0 {
			return
		}
		honestTip = nt
		rc.Logf("t=%s honest chain reorganises %d deep to %d while the filter-header goroutine is parked at %s", w.clock(), depth, nt.Height, site)
		rc.Probe("reorg_while_parked_at_" + site)
		follow(honestTip, true)
	}
	if rc.Prop == "C04" && tp.Chance(1, 4) {
		// Lost wake-up hunt: right before the filter-header goroutine
		// goes to sleep on the new-headers signal (its n-th time), a block
		// arrives and its header is processed at once.
		w.softNth = 1 + tp.Intn(6)
		w.softAct = func() {
			if !w.peers[0].connected() || !w.peers[0].shook || !w.running {
				return
			}
			// (runs on a goroutine of the client: the model miner's
			// "difficulty ran away" must not unwind through it)
			defer func() {
				if r := recover(); r != nil {
					if _, ok := r.(chainmodel.DifficultyRunaway); !ok {
						panic(r)
					}
					rc.Probe("soft_action_skipped_model_difficulty_runaway")
				}
			}()
			honestTip = w.mineChain(honestTip, 1, time.Minute, time.Now().Add(-5*time.Second), 0, "", &plan.salt, 70)
			rc.Logf("t=%s chain grows by 1 to %d, announced and delivered at once, while the filter-header goroutine is about to wait for the new-headers signal", w.clock(), honestTip.Height)
			rc.Probe("block_arrives_right_before_cfhandler_waits")
			follow(honestTip, false)
			w.peers[0].announce(true, 1)
			w.flushEvents(10 * time.Second)
		}
	}
	sw.kick = func() {
		honestTip = w.mineChain(honestTip, 1, time.Minute, time.Now().Add(-5*time.Second), 0, "", &plan.salt, 70)
		rc.Logf("t=%s chain grows by 1 to %d while a subscription is between backlog and registration", w.clock(), honestTip.Height)
		follow(honestTip, true)
	}
	nEv := tp.Intn(6)
	if thorough {
		nEv = tp.Intn(12)
	}
	// Remember when the client last asked for filter headers: a
	// reorganisation while such a query is still open (some node has not
	// answered) is a schedule worth steering towards.
	var lastCFQuery time.Time
	w.onClientMsg = func(p *SimPeer, m wire.Message) {
		if _, ok := m.(*wire.MsgGetCFHeaders); ok {
			lastCFQuery = time.Now()
		}
	}
	slowResponder := false
	for _, p := range w.peers {
		if p.beh.NoCF || p.beh.SilentAfter > 0 || p.beh.DropPct > 0 {
			slowResponder = true
		}
	}
	w.runFor(time.Duration(tp.Intn(15000))*time.Millisecond, nil)
	if race {
		// Let everybody connect and the initial sync finish, then: one new
		// block (the liar lies about it), and within the query's timeout a
		// reorganisation that replaces it.
		w.runFor(30*time.Second, nil)
		honestTip = w.mineChain(honestTip, 1, time.Minute, time.Now().Add(-10*time.Second), 0, "", &plan.salt, 100)
		rc.Logf("t=%s race: chain grows by 1 to %d", w.clock(), honestTip.Height)
		follow(honestTip, true)
		w.runFor(time.Duration(500+tp.Intn(8000))*time.Millisecond, nil)
		nt := w.mineChain(honestTip.Parent, 2, time.Minute, time.Now().Add(-5*time.Second), 0, "", &plan.salt, 100)
		rc.Logf("t=%s race: honest chain reorganises 1 deep to %d", w.clock(), nt.Height)
		rc.Probe("race_reorg_while_query_open")
		honestTip = nt
		follow(honestTip, true)
		w.runFor(40*time.Second, nil)
		nEv = 0
	}
	if gate && nLiars > 0 && nEv == 0 {
		nEv = 1
	}
	for i := 0; i < nEv && !w.halt; i++ {
		k := tp.Intn(100)
		if i == 0 && gate && nLiars > 0 {
			k = 0 // the liars are only ever asked about blocks that arrive after they connected
		}
		if slowResponder && !lastCFQuery.IsZero() && time.Since(lastCFQuery) < 9*time.Second && tp.Chance(1, 2) {
			k = 40 // reorganise while the filter-header query is open
			rc.Probe("reorg_event_while_cfheaders_query_open")
		}
		switch {
		case k < 30: // growth
			nb := 1 + tp.Intn(3)
			honestTip = w.mineChain(honestTip, nb, time.Minute, time.Now().Add(-time.Duration(tp.Intn(50))*time.Second), 0, "", &plan.salt, 70)
			rc.Logf("t=%s event: chain grows by %d to %d", w.clock(), nb, honestTip.Height)
			follow(honestTip, true)
		case k < 50: // reorganisation on the honest side: a heavier fork
			depth := 1 + tp.Intn(minInt(int(honestTip.Height), 4))
			at := honestTip.Ancestor(honestTip.Height - int32(depth))
			if at == nil {
				continue
			}
			l := depth + 1 + tp.Intn(2)
			nt := w.mineChain(at, l, time.Minute, time.Now().Add(-time.Duration(tp.Intn(50))*time.Second), 0, "", &plan.salt, 70)
			if nt.CumWork.Cmp(honestTip.CumWork) <= 0 {
				continue
			}
			rc.Logf("t=%s event: honest chain reorganises %d deep (fork at %d) to %d", w.clock(), depth, at.Height, nt.Height)
			rc.Probe("honest_reorg_event")
			honestTip = nt
			follow(honestTip, true)
		case k < 65: // a new subscription with a backlog
			if wt.prev == nil {
				continue
			}
			ft := len(wt.prev.filt) - 1
			sw.open(uint32(tp.Intn(ft + 3))) // may be above the filter tip: refused
		case k < 75:
			p := w.peers[tp.Intn(len(w.peers))]
			if p.idx == 0 {
				continue
			}
			rc.Logf("t=%s event: %s drops the connection", w.clock(), p.addr.IP)
			rc.Fault("net.close")
			p.disconnect("event")
		case k < 82:
			p := w.peers[tp.Intn(len(w.peers))]
			if p.idx == 0 {
				continue
			}
			rc.Fault("net.down")
			p.setUp(false)
			p.disconnect("down")
			pp := p
			w.after(time.Duration(5+tp.Intn(120))*time.Second, func() { pp.setUp(true) })
		default:
			w.peers[tp.Intn(len(w.peers))].announce(tp.Chance(1, 2), 1+tp.Intn(3))
		}
		w.runFor(time.Duration(tp.Intn(30000))*time.Millisecond, nil)
	}

	// Calm phase: faults stop. Dishonest and unreliable nodes go away for
	// good; the honest node serves the best chain. The client must report
	// the honest tip (block and filter headers) within the bound.
	// Nodes whose lies the client can refute from the block stay (C04 holds
	// "whatever its other peers send ... as in C03"); a node telling a lie
	// that cannot be refuted must be gone, or a 1:1 tie can never be broken.
	for _, p := range w.peers {
		// honest nodes stay, also those that serve a shorter (valid) chain
		if p.idx == 0 || p.role == "honest" || p.role == "lagging" || (p.role == "cf-liar" && provableOnly) {
			continue
		}
		p.setUp(false)
		p.disconnect("calm phase")
	}
	// The premise is an honest node serving THE most-work valid chain: a
	// valid block some node produced off that chain (the valid beginning of
	// a header liar's branch, handed out one header at a time) must not
	// carry as much work.
	for grown := 0; grown < 8; grown++ {
		rival := false
		for _, b := range w.tree.ByHash {
			if !b.Tainted && !b.IsAncestorOf(honestTip) && b.CumWork.Cmp(honestTip.CumWork) >= 0 {
				rival = true
				break
			}
		}
		if !rival {
			break
		}
		honestTip = w.mineChain(honestTip, 1, time.Minute, time.Now().Add(-10*time.Second), 0, "", &plan.salt, 70)
		rc.Logf("t=%s calm phase: a valid block off the honest chain carries as much work; the honest chain grows by 1 to %d", w.clock(), honestTip.Height)
		rc.Probe("honest_chain_grown_past_valid_rival")
		follow(honestTip, true)
	}
	w.peers[0].setView(honestTip)
	w.peers[0].setUp(true)
	// (No re-announcement here: a real node announces a block once. The
	// client has to get to the tip by its own means.)
	const bound = 30 * time.Minute
	atHonestTip := func() bool {
		bs, err := w.cs.BestBlock()
		if err != nil || bs.Hash != honestTip.Hash {
			return false
		}
		if provableOnly {
			// "with matching block and filter headers"
			fh, err := w.cs.RegFilterHeaders.FetchHeaderByHeight(uint32(honestTip.Height))
			return err == nil && *fh == w.tree.FilterHeader(honestTip)
		}
		return true
	}
	// The honest node's announcements below presuppose that its handshake
	// with the client is complete (the client may have reached the tip
	// through another honest node before that).
	honestReady := func() {
		w.runFor(2*time.Minute, func() bool { return w.peers[0].shook && w.peers[0].connected() })
	}
	converged := w.runFor(bound/3, atHonestTip)
	lossy := rc.Res.Faults["net.drop"]+rc.Res.Faults["net.stall"]+rc.Res.Faults["net.silent"]+rc.Res.Faults["net.close"]+rc.Res.Faults["net.down"] > 0 || unannounced || w.clientCloses > 0
	for _, p := range w.peers {
		if p.beh.MaxHeaders > 0 {
			// a node that answers getheaders with fewer headers than it
			// has withholds what the protocol says it sends: not lossless
			lossy = true
		}
	}
	if !converged && !lossy && rc.Prop == "C04" {
		// Nothing was ever lost, delayed or cut in this run: there is no
		// excuse for waiting for the next block.
		wt.check()
		bs, _ := w.cs.BestBlock()
		failNoConvergence(rc, w, wt, map[string]string{"lossless": "true"},
			"no message was ever dropped, stalled or cut in this run, yet %v after the calm phase began (honest node %s connected, chain quiescent at %d) the client reports best block %d; block tip %d, filter tip %d",
			bound/3, w.peers[0].addr.IP, honestTip.Height, bs.Height, wt.prev.tip(), len(wt.prev.filt)-1)
	}
	if !converged {
		// "Eventually" on a chain that keeps growing: a request whose answer
		// was lost (its block hash is remembered as already requested) is
		// only superseded by the next block. Let one more block arrive.
		honestTip = w.mineChain(honestTip, 1, time.Minute, time.Now().Add(-10*time.Second), 0, "", &plan.salt, 70)
		rc.Logf("t=%s calm phase: not yet at the honest tip, the chain grows by 1 to %d", w.clock(), honestTip.Height)
		rc.Probe("calm_phase_needed_another_block")
		follow(honestTip, false)
		honestReady()
		w.peers[0].announce(false, 1)
		converged = w.runFor(2*bound/3, atHonestTip)
	}
	wt.check()
	sw.drain()
	sw.compare(wt.prev)
	if !converged {
		bs, _ := w.cs.BestBlock()
		if rc.Prop == "C04" {
			failNoConvergence(rc, w, wt, map[string]string{},
				"%v of simulated time after every fault stopped, with the honest node %s serving tip %d (%s), the client reports best block %d (%s); block tip %d, filter tip %d",
				bound, w.peers[0].addr.IP, honestTip.Height, short(honestTip.Hash), bs.Height, short(bs.Hash), wt.prev.tip(), len(wt.prev.filt)-1)
		}
		rc.Probe("not_converged_in_calm_phase")
	} else {
		rc.Probe("converged_in_calm_phase")
		if rc.Prop == "C04" && tp.Chance(1, 2) {
			// And it keeps doing so as the chain grows.
			honestTip = w.mineChain(honestTip, 1+tp.Intn(2), time.Minute, time.Now().Add(-10*time.Second), 0, "", &plan.salt, 70)
			follow(honestTip, false)
			honestReady()
			w.peers[0].announce(tp.Chance(1, 2), 1)
			if !w.runFor(bound, atHonestTip) {
				wt.check()
				failNoConvergence(rc, w, wt, map[string]string{"phase": "growth"},
					"after converging, the honest chain grew to %d but the client did not follow within %v", honestTip.Height, bound)
			}
			rc.Probe("followed_growth_after_convergence")
		}
	}

	// Ban clauses of C03 (only where decidable, see rule text).
	if rc.Prop == "C03" {
		// The honest node must not be banned. Decidable when nobody lied at
		// all, or when the honest node took part in every filter-header
		// query and all lies were provable (then nothing false was ever
		// committed that its answers could contradict).
		if w.cs.IsBanned(w.peers[0].addr.String()) {
			if nLiars == 0 || wt.cfValue {
				rc.Failf("honest-node-banned", map[string]string{"liars": fmt.Sprint(nLiars > 0)},
					"the honest, reliable node %s is in the ban store", w.peers[0].addr.IP)
			}
			rc.Probe("honest_node_banned_after_unopposed_lie_was_committed")
		}
		for _, p := range w.peers {
			if p.role != "cf-liar" || !wt.cfValue {
				continue
			}
			// The liar must be banned if it lied in a query that the client
			// could complete: one whose stop block was not reorganised
			// away (such a query is abandoned and nobody is judged).
			judged := false
			for _, st := range p.liedStops {
				if st.IsAncestorOf(wt.prev.tipBlock()) {
					judged = true
				}
			}
			if !judged && p.liedWhenAsked {
				rc.Probe("liar_lied_only_in_queries_abandoned_after_reorg")
			}
			if judged && p.beh.DropPct == 0 {
				if w.cs.IsBanned(p.addr.String()) {
					rc.Probe("liar_banned")
				} else {
					rc.Failf("liar-not-banned", map[string]string{"lies": liesKinds(p.beh.CFLies)},
						"node %s answered a filter-header query with a provably false filter header (%s) while the honest node answered too, and is not in the ban store",
						p.addr.IP, liesString(p.beh.CFLies))
				}
			}
		}
	}

	rc.Res.Steps = w.steps
	v := wt.prev
	rc.Res.Nontrivial = len(v.filt) > 1
	nb := 0
	for _, s := range sw.subs {
		if s.height != 0 {
			nb++
		}
	}
	rc.Res.Sample = map[string]any{"main": n, "nodes": nPeers, "liars": nLiars, "events": nEv, "block_tip": v.tip(),
		"filter_tip": len(v.filt) - 1, "reorgs": wt.nReorg, "subs": len(sw.subs), "subs_with_backlog": nb, "converged": converged}
}

// nonConvergenceCause classifies why the client is not at the honest tip: the
// one cause recorded as a known finding is told apart from everything else.
// althoughAnswered: a false filter header was committed although the honest
// node was among the responders. When the lie told at that height is one the
// client cannot refute from the block (an extra element, the block's
// OP_RETURN script), a majority of liars wins by design: C03 promises the
// honest value only against provable lies, and C04 refers to C03 for what
// the other peers may send.
func althoughAnswered(w *World, h int) string {
	if k := w.lieKindAt(int32(h)); k == lieNames[lieExtra] || k == lieNames[lieOpReturn] {
		return "unrefutable-false-filter-header-committed-by-a-majority-of-liars"
	}
	return "false-filter-header-committed-although-honest-node-answered"
}

// failNoConvergence reports C04's liveness clause with its cause, unless the
// cause is outside what the statement promises (see althoughAnswered).
func failNoConvergence(rc *core.RunCtx, w *World, wt *watcher, facts map[string]string, format string, a ...any) {
	cause := nonConvergenceCause(w, wt)
	if strings.HasPrefix(cause, "unrefutable") {
		rc.Probe("not_converged_after_an_unrefutable_lie_won_the_majority")
		return
	}
	facts["cause"] = cause
	rc.Failf("no-convergence-after-faults-stopped", facts, format, a...)
}

func nonConvergenceCause(w *World, wt *watcher) string {
	// The first false filter header in the store, if any: was it committed
	// without the honest node ever having been asked about that height?
	for h := 1; h < len(wt.prev.filt); h++ {
		if wt.prev.blks[h] != nil && wt.prev.filt[h] != w.tree.FilterHeader(wt.prev.blks[h]) {
			// The batch that committed this header: the first committed
			// batch whose stop block has this block on its chain. Was the
			// honest node among its responders?
			b := wt.prev.blks[h]
			w.ymu.Lock()
			commits := append([]chainhash.Hash(nil), w.cfCommits...)
			w.ymu.Unlock()
			for _, sh := range commits {
				if st := w.tree.ByHash[sh]; st != nil && b.IsAncestorOf(st) {
					if !w.peers[0].cfAnsweredStops[sh] {
						return "false-filter-header-committed-while-no-honest-node-was-asked"
					}
					return althoughAnswered(w, h)
				}
			}
			if !w.peers[0].cfAsked[int32(h)] {
				return "false-filter-header-committed-while-no-honest-node-was-asked"
			}
			return althoughAnswered(w, h)
		}
	}
	// Stuck on the chain of a connected node that lags behind, with the honest
	// node connected as well?
	ct := wt.prev.tipBlock()
	for _, p := range w.peers {
		if p.role == "lagging" && p.connected() && p.view == ct && ct.Height < w.peers[0].view.Height &&
			ct.IsAncestorOf(w.peers[0].view) && w.peers[0].connected() {
			// Would the client have counted itself current when the better
			// node's handshake completed? (It asks a new, higher peer for
			// headers only then.) Current = it had all of the lagging sync
			// peer's headers and its tip was less than a day old.
			hs := w.peers[0]
			if hs.clientTipAtHandshake < ct.Height || hs.handshakeAt.Sub(ct.Hdr.Timestamp) > 24*time.Hour-75*time.Minute {
				return "lagging-sync-peer-and-client-not-current-when-better-peer-connected"
			}
			return "on-lagging-chain-although-current-when-better-peer-connected"
		}
	}
	// The honest node in the ban store although nothing false is committed:
	// did the client cut its connection itself at some point? (A peer that
	// answered a filter-header query and is gone when the conflict's filters
	// are fetched is branded bad, whoever closed the connection.)
	if w.cs.IsBanned(w.peers[0].addr.String()) && w.peers[0].clientCuts > 0 {
		return "honest-node-banned-after-the-client-cut-its-connection"
	}
	// Is the client the sync victim of connected nodes that serve the
	// heavier branch only in batches none of which is heavier, on its own,
	// than what it would displace? (The client judges a reorganisation per
	// headers message.)
	hon := w.peers[0].view
	if !ct.IsAncestorOf(hon) && hon.CumWork.Cmp(ct.CumWork) > 0 {
		fork := chainmodel.ForkPoint(ct, hon)
		displaced := new(big.Int).Sub(ct.CumWork, fork.CumWork)
		for _, p := range w.peers {
			// (connected or in its reconnect loop: the client cuts such a
			// node each time it offers a batch that looks lighter, and
			// dials it again five seconds later)
			if p.idx == 0 || p.beh.MaxHeaders <= 0 || !fork.IsAncestorOf(p.view) || ct.IsAncestorOf(p.view) {
				continue
			}
			// The batch starts after the newest block of the client's
			// locator that the node has on its chain: the fork point at
			// best, genesis when the locator is the client's tip alone (as
			// it is while the client follows its sync peer batch by batch).
			for _, from := range []int32{fork.Height, 0} {
				end := from + int32(p.beh.MaxHeaders)
				if end > p.view.Height {
					end = p.view.Height
				}
				if end <= fork.Height {
					continue
				}
				last := p.view.Ancestor(end)
				if new(big.Int).Sub(last.CumWork, fork.CumWork).Cmp(displaced) <= 0 {
					return "sync-peer-serves-heavier-branch-in-batches-not-heavier-alone"
				}
			}
		}
	}
	return "other"
}

func liesKinds(m map[int32]int) string {
	seen := make([]bool, numLieKinds)
	for _, k := range m {
		seen[k] = true
	}
	s := ""
	for k, b := range seen {
		if b {
			s += lieNames[k] + " "
		}
	}
	return s
}

func liesString(m map[int32]int) string {
	s := ""
	for h := int32(0); h < 4000; h++ {
		if k, ok := m[h]; ok {
			s += fmt.Sprintf("%d:%s ", h, lieNames[k])
		}
	}
	return s
}
