// Package c13 is the engine for property C13 (store part): the real
// banman.Store over a real bbolt database inside a testing/synctest bubble
// (time.Now is the fake clock), driven by tape-chosen histories of ban / unban
// / status / advance-clock / close-and-reopen operations whose address
// arguments are random textual spellings of a few addresses, with injected
// database failures, against a map model keyed by the network an operation
// denotes.
package c13

import (
	"encoding/hex"
	"errors"
	"fmt"
	"io"
	"net"
	"os"
	"path/filepath"
	"strings"
	"testing"
	"testing/synctest"
	"time"

	"github.com/btcsuite/btcwallet/walletdb"
	_ "github.com/btcsuite/btcwallet/walletdb/bdb"
	"github.com/lightninglabs/neutrino/banman"

	"verif/sim/core"
)

func init() { core.Register("C13", RunC13) }

// RunC13 is the engine function for C13.
func RunC13(t *testing.T, rc *core.RunCtx) {
	bubble(t, rc, func() { runC13(rc) })
}

// bubble runs body inside a synctest bubble (same contract as e3.Bubble; kept
// local so that this engine's binary depends on no other engine package).
func bubble(t *testing.T, rc *core.RunCtx, body func()) {
	defer func() {
		if r := recover(); r != nil {
			msg := fmt.Sprint(r)
			if rc.Res.Violation == nil && rc.Res.InfraError == "" {
				rc.Res.InfraError = "bubble could not be left cleanly: " + msg
			}
		}
	}()
	synctest.Test(t, func(t *testing.T) {
		core.Guard(rc, body)
	})
}

var errInjected = errors.New("verif: injected database fault")

// faultDB wraps the real walletdb.DB. Every read-write transaction asks the
// decider first: 0 run normally; 1 the database refuses the transaction before
// the closure runs; 2 the closure runs and the commit then fails (all of its
// writes are rolled back by bbolt, the caller sees an error).
type faultDB struct {
	walletdb.DB
	decide func() int
	fired  int
	// after, if set, runs once when the next transaction (read-only or
	// read-write) has ended: the point at which another caller's operation
	// can slip in between two transactions of one call.
	after func()
}

func (w *faultDB) ended() {
	if f := w.after; f != nil {
		w.after = nil
		f()
	}
}

func (w *faultDB) View(f func(tx walletdb.ReadTx) error, reset func()) error {
	defer w.ended()
	return w.DB.View(f, reset)
}

func (w *faultDB) Update(f func(tx walletdb.ReadWriteTx) error, reset func()) error {
	defer w.ended()
	switch w.decide() {
	case 1:
		w.fired++
		return errInjected
	case 2:
		w.fired++
		err := w.DB.Update(func(tx walletdb.ReadWriteTx) error {
			if err := f(tx); err != nil {
				return err
			}
			return errInjected
		}, reset)
		if err == nil {
			err = errInjected
		}
		return err
	}
	return w.DB.Update(f, reset)
}

// rec is the model's ban record for one network.
type rec struct {
	reason banman.Reason
	// lapse is ban time + duration, at full resolution.
	lapse time.Time
	// how the ban was written (for messages and probes).
	bannedAs   string
	bannedAddr ident
	epoch      int // reopen count when banned
}

type maskSel struct {
	idx  int // index into the mask table; 0 = nil mask
	bits int // prefix length, counted in the mask's own width
	// wide: a 16-byte mask applied to an IPv4 address (prefix >= 96 only,
	// so the network stays inside the IPv4 range).
	wide bool
}

// Mask table: index -> prefix length for IPv4 / IPv6. Index 0 is "nil mask"
// (the default single-address network), index 1 is the same written out.
var maskV4 = []int{32, 32, 24, 16, 8, 0, 31, 25, 20, 128, 120, 104}
var maskV6 = []int{128, 128, 64, 48, 32, 0, 127, 65, 100, 126, 120, 104}

// firstWide is the first mask-table index that, for an IPv4 address, means a
// 16-byte mask. The statement promises nothing about how a 4-byte and a
// 16-byte mask of the same address relate, so the model keeps them apart.
const firstWide = 9

func selMask(a ident, idx int) maskSel {
	if a.isV4() {
		return maskSel{idx: idx, bits: maskV4[idx], wide: idx >= firstWide}
	}
	return maskSel{idx: idx, bits: maskV6[idx]}
}

type sim struct {
	rc *core.RunCtx
	tp *core.Tape

	dbPath string
	raw    walletdb.DB
	fdb    *faultDB
	store  banman.Store

	faultsOn  bool
	faultArm  bool // faults may fire only while an operation under test runs
	epoch     int
	pool      []ident
	palette   []int // mask-table indices in use this run
	model     map[string]*rec
	order     []string // model keys in first-insertion order (deterministic iteration)
	keyDesc   map[string]string
	everKeyed map[string][]int // key -> (pool index, mask idx) that denotes it, for the sweep

	nBan, nStatusOnRec, nReopen int
}

// netKey is the network an (address, mask) pair denotes: the address masked
// in 128-bit space plus the prefix length in 128-bit space. IPv4 networks live
// under ::ffff:0:0/96, so they can never equal an IPv6 network.
func netKey(a ident, m maskSel) string {
	p := m.bits
	width := 16
	if a.isV4() && !m.wide {
		p += 96
		width = 4
	}
	var out [16]byte
	for i := 0; i < 16; i++ {
		switch {
		case p >= 8*(i+1):
			out[i] = a[i]
		case p > 8*i:
			out[i] = a[i] & (0xff << (8 - (p - 8*i)))
		}
	}
	return fmt.Sprintf("%s/%d/mask%d", hex.EncodeToString(out[:]), p, width)
}

func (s *sim) mask(a ident, m maskSel) net.IPMask {
	if m.idx == 0 {
		return nil
	}
	if m.wide {
		return net.CIDRMask(m.bits, 128)
	}
	return net.CIDRMask(m.bits, a.famBits())
}

func (s *sim) drawMask(a ident) maskSel {
	return selMask(a, s.palette[s.tp.Intn(len(s.palette))])
}

func maskClass(a ident, m maskSel) string {
	switch {
	case m.idx == 0:
		return "nil"
	case m.wide:
		return "wide"
	case m.bits == a.famBits():
		return "full"
	case m.bits == 0:
		return "zero"
	}
	return "partial"
}

// open opens (or creates) the database and the ban store. Faults are not
// armed here: the statement says nothing about a store that could not be
// opened, so the harness simply needs it open.
func (s *sim) open(create bool) {
	var err error
	if create {
		s.raw, err = walletdb.Create("bdb", s.dbPath, true, 10*time.Second, false)
	} else {
		s.raw, err = walletdb.Open("bdb", s.dbPath, true, 10*time.Second, false)
	}
	if err != nil {
		s.rc.Infra("open db %s: %v", s.dbPath, err)
	}
	s.fdb = &faultDB{DB: s.raw, decide: s.decideFault}
	var p any
	func() {
		defer func() { p = recover() }()
		s.store, err = banman.NewStore(s.fdb)
	}()
	if p != nil {
		s.rc.Failf("panic", map[string]string{"op": "open"}, "banman.NewStore panicked: %v", p)
	}
	if err != nil {
		s.rc.Failf("open-failed", map[string]string{"first": fmt.Sprint(create)},
			"banman.NewStore failed on a healthy database (reopen #%d): %v", s.epoch, err)
	}
}

func (s *sim) close() {
	if s.raw != nil {
		if err := s.raw.Close(); err != nil {
			s.rc.Infra("close db: %v", err)
		}
		s.raw = nil
	}
}

func (s *sim) decideFault() int {
	if !s.faultsOn || !s.faultArm {
		return 0
	}
	if !s.tp.Chance(1, 6) {
		return 0
	}
	return 1 + s.tp.Intn(2)
}

func (s *sim) facts(extra ...string) map[string]string {
	f := map[string]string{"faults": fmt.Sprint(s.faultsOn), "reopened": fmt.Sprint(s.epoch > 0)}
	for i := 0; i+1 < len(extra); i += 2 {
		f[extra[i]] = extra[i+1]
	}
	return f
}

// guarded runs one call into the code under test with faults armed; a panic
// there is an oracle failure (the store must answer every query).
func (s *sim) guarded(op string, sp spelling, f func()) (faulted bool) {
	before := s.fdb.fired
	s.faultArm = true
	var p any
	func() {
		defer func() { p = recover() }()
		f()
	}()
	s.faultArm = false
	if p != nil {
		s.rc.Failf("panic", s.facts("op", op, "form", sp.form), "%s(%q) panicked: %v", op, sp.text, p)
	}
	if s.fdb.fired != before {
		s.rc.Fault("db.update-failed")
		return true
	}
	return false
}

func (s *sim) parse(op string, a ident, sp spelling, m maskSel) *net.IPNet {
	if !denotes(sp.text, a) {
		s.rc.Infra("harness rendered %q for %v", sp.text, a)
	}
	var ipNet *net.IPNet
	var err error
	s.guarded("ParseIPNet", sp, func() { ipNet, err = banman.ParseIPNet(sp.text, s.mask(a, m)) })
	if err != nil || ipNet == nil {
		s.rc.Failf("spelling-rejected", s.facts("form", sp.form, "mask", maskClass(a, m)),
			"%s: ParseIPNet(%q, /%d) refused a valid spelling of %v: %v", op, sp.text, m.bits, a, err)
	}
	return ipNet
}

func (s *sim) live(now time.Time) []string {
	var out []string
	for _, k := range s.order {
		if r := s.model[k]; r != nil && now.Before(r.lapse) {
			out = append(out, k)
		}
	}
	return out
}

func (s *sim) remember(key string, poolIdx int, m maskSel, a ident) {
	if _, ok := s.everKeyed[key]; !ok {
		s.everKeyed[key] = []int{poolIdx, m.idx}
		s.order = append(s.order, key)
		s.keyDesc[key] = fmt.Sprintf("%v/%d", a, m.bits)
		if m.wide {
			s.keyDesc[key] += "(16-byte mask)"
		}
	}
}

var durations = []time.Duration{
	time.Hour, time.Second, 2 * time.Second, 10 * time.Second, time.Minute, 24 * time.Hour,
	30 * 24 * time.Hour, 0, -time.Second, -time.Hour, time.Nanosecond, 500 * time.Millisecond,
	1500 * time.Millisecond, 999999999 * time.Nanosecond, 1000000001 * time.Nanosecond,
	100 * 365 * 24 * time.Hour,
}

var reasons = []banman.Reason{
	banman.ExceededBanThreshold, banman.NoCompactFilters, banman.InvalidFilterHeader,
	banman.InvalidFilterHeaderCheckpoint, banman.InvalidBlock, 0, 200,
}

func (s *sim) opBan() string {
	tp := s.tp
	pi := tp.Intn(len(s.pool))
	a := s.pool[pi]
	sp := spell(tp, a)
	m := s.drawMask(a)
	reason := reasons[0]
	if tp.Chance(3, 4) {
		reason = reasons[tp.Intn(len(reasons))]
	}
	d := durations[tp.Intn(len(durations))]
	if tp.Chance(1, 6) {
		d = time.Duration(tp.Intn(5000)) * time.Millisecond
	}
	key := netKey(a, m)
	s.remember(key, pi, m, a)
	ipNet := s.parse("ban", a, sp, m)
	now := time.Now()
	var err error
	faulted := s.guarded("BanIPNet", sp, func() { err = s.store.BanIPNet(ipNet, reason, d) })
	s.rc.Logf("ban %s (%v/%d) reason=%d for %v at %s -> err=%v", sp.text, a, m.bits, reason, d, stamp(now), err)
	if err != nil && !faulted && d <= 0 {
		// The statement is about bans "for a duration"; refusing a
		// zero or negative one is not a violation.
		s.rc.Probe("nonpositive_ban_refused")
		s.checkNoHalfRecord("refused BanIPNet")
		return "ban|refused"
	}
	if err != nil {
		if !faulted {
			s.rc.Failf("ban-failed", s.facts("form", sp.form, "mask", maskClass(a, m)),
				"BanIPNet(%q /%d, %v) failed without any injected fault: %v", sp.text, m.bits, d, err)
		}
		s.rc.Probe("fault_ban_failed")
		s.checkNoHalfRecord("failed BanIPNet")
		return "ban|err"
	}
	if old := s.model[key]; old != nil && now.Before(old.lapse) {
		s.rc.Probe("reban_of_live_ban")
		if old.reason != reason {
			s.rc.Probe("reban_changes_reason")
		}
		if now.Add(d).Before(old.lapse) {
			s.rc.Probe("reban_shortens")
		}
	}
	if d <= 0 {
		s.rc.Probe("ban_nonpositive_duration")
	}
	s.model[key] = &rec{reason: reason, lapse: now.Add(d), bannedAs: sp.text, bannedAddr: a, epoch: s.epoch}
	s.nBan++
	return "ban|ok"
}

func (s *sim) opUnban() string {
	tp := s.tp
	pi := tp.Intn(len(s.pool))
	a := s.pool[pi]
	m := s.drawMask(a)
	// Prefer a network that is banned right now.
	if lv := s.live(time.Now()); len(lv) > 0 && tp.Chance(2, 3) {
		k := lv[tp.Intn(len(lv))]
		pi = s.everKeyed[k][0]
		a = s.pool[pi]
		idx := s.everKeyed[k][1]
		m = selMask(a, idx)
	}
	sp := spell(tp, a)
	key := netKey(a, m)
	s.remember(key, pi, m, a)
	ipNet := s.parse("unban", a, sp, m)
	now := time.Now()
	var err error
	faulted := s.guarded("UnbanIPNet", sp, func() { err = s.store.UnbanIPNet(ipNet) })
	s.rc.Logf("unban %s (%v/%d) at %s -> err=%v", sp.text, a, m.bits, stamp(now), err)
	if err != nil {
		if !faulted {
			s.rc.Failf("unban-failed", s.facts("form", sp.form, "mask", maskClass(a, m)),
				"UnbanIPNet(%q /%d) failed without any injected fault: %v", sp.text, m.bits, err)
		}
		s.rc.Probe("fault_unban_failed")
		s.checkNoHalfRecord("failed UnbanIPNet")
		return "unban|err"
	}
	if r := s.model[key]; r != nil && now.Before(r.lapse) {
		s.rc.Probe("unban_of_live_ban")
	} else {
		s.rc.Probe("unban_of_absent")
	}
	delete(s.model, key)
	return "unban|ok"
}

// status queries one network through a fresh spelling and compares with the
// model. It returns the abstract outcome.
func (s *sim) status(pi int, m maskSel, why string) string {
	a := s.pool[pi]
	sp := spell(s.tp, a)
	key := netKey(a, m)
	s.remember(key, pi, m, a)
	ipNet := s.parse("status", a, sp, m)
	now := time.Now()
	var st banman.Status
	var err error
	// Another caller's ban of the same network may slip in right after the
	// query's first database transaction (mostly tried when a lapsed record
	// is still waiting to be cleaned up by this very query). The query is
	// judged against the bans before it; the new ban holds afterwards.
	var slipped *rec
	if old := s.model[key]; (old != nil && !now.Before(old.lapse) && s.tp.Chance(1, 2)) || s.tp.Chance(1, 10) {
		reason := reasons[s.tp.Intn(5)]
		d := time.Duration(1+s.tp.Intn(3600)) * time.Second
		s.fdb.after = func() {
			arm := s.faultArm
			s.faultArm = false
			berr := s.store.BanIPNet(ipNet, reason, d)
			s.faultArm = arm
			if berr != nil {
				s.rc.Failf("ban-failed", s.facts("form", sp.form, "mask", maskClass(a, m)),
					"BanIPNet(%q /%d, %v) between the transactions of a Status query failed without any injected fault: %v", sp.text, m.bits, d, berr)
			}
			slipped = &rec{reason: reason, lapse: now.Add(d), bannedAs: sp.text, bannedAddr: a, epoch: s.epoch}
			s.rc.Probe("ban_slipped_into_status_query")
			s.rc.Logf("  (ban of the same network, reason=%d for %v, right after the query's first transaction)", reason, d)
		}
		defer func() {
			s.fdb.after = nil
			if slipped != nil {
				s.model[key] = slipped
				s.nBan++
			}
		}()
	}
	faulted := s.guarded("Status", sp, func() { st, err = s.store.Status(ipNet) })
	s.rc.Logf("status[%s] %s (%v/%d) at %s -> banned=%v reason=%d exp=%s err=%v", why, sp.text, a, m.bits,
		stamp(now), st.Banned, st.Reason, stamp(st.Expiration), err)
	fx := func(extra ...string) map[string]string {
		return s.facts(append([]string{"form", sp.form, "mask", maskClass(a, m)}, extra...)...)
	}
	if err != nil {
		if !faulted {
			s.rc.Failf("status-failed", fx(), "Status(%q /%d) failed without any injected fault: %v", sp.text, m.bits, err)
		}
		s.rc.Probe("fault_status_failed")
		s.checkNoHalfRecord("failed Status")
		return "status|err"
	}
	r := s.model[key]
	if r == nil {
		// Never banned, unbanned, or already reported lapsed.
		if st.Banned {
			s.rc.Failf("banned-without-ban", fx(),
				"Status(%q /%d) at %s reports banned (reason %d, until %s) but network %s has no ban in force%s",
				sp.text, m.bits, stamp(now), st.Reason, stamp(st.Expiration), s.keyDesc[key], s.otherBans(key, now))
		}
		if s.overlapsLive(a, key, now) {
			s.rc.Probe("status_other_mask_of_banned_ip_not_banned")
		}
		return "status|none"
	}
	s.nStatusOnRec++
	if r.bannedAs != sp.text {
		s.rc.Probe("status_via_other_spelling")
	}
	if r.bannedAddr != a {
		s.rc.Probe("status_via_other_address_in_network")
	}
	if r.epoch != s.epoch {
		s.rc.Probe("status_after_reopen")
	}
	certain := r.lapse.Add(-time.Second) // the on-disk format has one-second resolution
	switch {
	case !now.Before(r.lapse):
		if st.Banned {
			s.rc.Failf("banned-after-lapse", fx(),
				"Status(%q /%d) at %s still reports banned (until %s) although the ban (written as %q) lapsed at %s",
				sp.text, m.bits, stamp(now), stamp(st.Expiration), r.bannedAs, stamp(r.lapse))
		}
		if now.Equal(r.lapse) {
			s.rc.Probe("status_exactly_at_lapse")
		}
		delete(s.model, key)
		return "status|lapsed"
	case !now.After(certain):
		if !st.Banned {
			s.rc.Failf("not-banned-before-lapse", fx(),
				"Status(%q /%d) at %s reports not banned although the ban written as %q lasts until %s",
				sp.text, m.bits, stamp(now), r.bannedAs, stamp(r.lapse))
		}
	default:
		// Inside the last second before the lapse: the record's
		// whole-second expiry may already have passed.
		if !st.Banned {
			s.rc.Probe("status_last_second_not_banned")
			delete(s.model, key)
			return "status|lapsed-early"
		}
		s.rc.Probe("status_last_second_banned")
	}
	// Banned: reason and expiry must be the recorded ones.
	if st.Reason != r.reason {
		s.rc.Failf("wrong-reason", fx(), "Status(%q /%d) reports reason %d, the ban written as %q recorded %d",
			sp.text, m.bits, st.Reason, r.bannedAs, r.reason)
	}
	if !st.Expiration.After(certain) || st.Expiration.After(r.lapse) {
		s.rc.Failf("wrong-expiration", fx(),
			"Status(%q /%d) reports expiry %s; ban time + duration is %s (one-second resolution allowed)",
			sp.text, m.bits, stamp(st.Expiration), stamp(r.lapse))
	}
	if !now.Before(st.Expiration) {
		s.rc.Failf("banned-past-own-expiry", fx(),
			"Status(%q /%d) at %s reports banned with expiry %s which is not in the future",
			sp.text, m.bits, stamp(now), stamp(st.Expiration))
	}
	if r.lapse.Sub(now) == time.Nanosecond {
		s.rc.Probe("status_1ns_before_lapse")
	}
	if m.wide {
		s.rc.Probe("status_banned_v4_with_16byte_mask")
	}
	if a.isV4() && strings.Contains(r.bannedAs, ".") != strings.Contains(sp.text, ".") ||
		a.isV4() && strings.Contains(r.bannedAs, ":ffff:") != strings.Contains(strings.ToLower(sp.text), ":ffff:") {
		s.rc.Probe("status_banned_v4_dotted_vs_mapped")
	}
	if !a.isV4() && strings.ToLower(r.bannedAs) != strings.ToLower(sp.text) {
		s.rc.Probe("status_banned_v6_other_compression")
	}
	return "status|banned"
}

func (s *sim) otherBans(key string, now time.Time) string {
	var l []string
	for _, k := range s.live(now) {
		if k != key {
			l = append(l, s.keyDesc[k])
		}
	}
	if len(l) == 0 {
		return ""
	}
	return "; bans in force: " + strings.Join(l, ", ")
}

// overlapsLive: some OTHER network containing or contained in this one, built
// from the same address, is banned right now (exactness probe).
func (s *sim) overlapsLive(a ident, key string, now time.Time) bool {
	for _, k := range s.live(now) {
		if k != key && s.pool[s.everKeyed[k][0]] == a {
			return true
		}
	}
	return false
}

func (s *sim) opStatus() string {
	tp := s.tp
	// Mostly query something that has (had) a record; sometimes anything.
	if len(s.order) > 0 && tp.Chance(3, 4) {
		k := s.order[tp.Intn(len(s.order))]
		pi, idx := s.everKeyed[k][0], s.everKeyed[k][1]
		a := s.pool[pi]
		// Possibly through another pool address inside the same network.
		var same []int
		for j, b := range s.pool {
			if b.isV4() == a.isV4() {
				if netKey(b, selMask(b, idx)) == k {
					same = append(same, j)
				}
			}
		}
		if len(same) > 1 && tp.Chance(1, 2) {
			pi = same[tp.Intn(len(same))]
		}
		m := selMask(s.pool[pi], idx)
		return s.status(pi, m, "op")
	}
	pi := tp.Intn(len(s.pool))
	return s.status(pi, s.drawMask(s.pool[pi]), "op")
}

func (s *sim) sleepTo(t time.Time) {
	if d := time.Until(t); d > 0 {
		time.Sleep(d)
	}
}

func (s *sim) opAdvance() string {
	tp := s.tp
	now := time.Now()
	lv := s.live(now)
	kind := tp.Intn(8)
	var target time.Time
	aimed := ""
	switch kind {
	case 0:
		target = now.Add(time.Second)
	case 1:
		target = now.Add(time.Nanosecond)
	case 2:
		target = now.Add([]time.Duration{500 * time.Millisecond, 250 * time.Millisecond, 999 * time.Millisecond,
			999999999 * time.Nanosecond}[tp.Intn(4)])
	case 3:
		target = now.Truncate(time.Second).Add(time.Second)
	case 4, 5:
		if len(lv) == 0 {
			target = now.Add(time.Second)
			break
		}
		aimed = lv[tp.Intn(len(lv))]
		r := s.model[aimed]
		base := r.lapse
		if kind == 5 {
			base = r.lapse.Truncate(time.Second)
		}
		target = base.Add([]time.Duration{0, -time.Nanosecond, time.Nanosecond, -time.Second, time.Second,
			-999999999 * time.Nanosecond, -500 * time.Millisecond, -1000000001 * time.Nanosecond}[tp.Intn(8)])
		if !target.After(now) {
			target = now.Add(time.Nanosecond)
		}
	case 6:
		target = now.Add(time.Duration(1+tp.Intn(120)) * time.Minute)
	default:
		target = now.Add(time.Duration(1+tp.Intn(40)) * 24 * time.Hour)
	}
	if target.After(clockHorizon) {
		// The fake clock counts int64 nanoseconds and ends in 2262; stay
		// well inside (a run that aims at several 100-year expiries in
		// a row would otherwise leave the representable range).
		target = now.Add(time.Second)
		aimed = ""
		s.rc.Probe("clock_horizon_reached")
	}
	s.sleepTo(target)
	s.rc.Logf("clock -> %s", stamp(time.Now()))
	if aimed != "" && tp.Chance(3, 4) {
		// Query the record whose expiry edge the clock was just moved to.
		pi, idx := s.everKeyed[aimed][0], s.everKeyed[aimed][1]
		m := selMask(s.pool[pi], idx)
		return "advance-edge+" + s.status(pi, m, "edge")
	}
	return "advance"
}

func (s *sim) opReopen() string {
	tp := s.tp
	live := len(s.live(time.Now()))
	crash := tp.Chance(1, 4)
	if crash {
		// Process death: the file as it is on disk now (every completed
		// transaction was committed), without a clean Close.
		next := filepath.Join(s.rc.Dir, fmt.Sprintf("ban-%d.db", s.epoch+1))
		if err := copyFile(s.dbPath, next); err != nil {
			s.rc.Infra("copy db: %v", err)
		}
		s.close()
		s.dbPath = next
		s.rc.Probe("reopen_after_process_death")
	} else {
		s.close()
	}
	s.epoch++
	s.nReopen++
	s.open(false)
	if live > 0 {
		s.rc.Probe("reopen_with_live_bans")
	}
	s.rc.Logf("reopen (crash=%v) with %d bans in force", crash, live)
	if crash {
		return "reopen|crash"
	}
	return "reopen|clean"
}

// opBadMask: an IPv6 address with a 4-byte mask is not a network; whatever the
// code answers, it must not create or disturb a record (the following status
// queries and the final sweep see that) and must not panic.
func (s *sim) opBadMask() string {
	tp := s.tp
	var v6 []int
	for i, a := range s.pool {
		if !a.isV4() {
			v6 = append(v6, i)
		}
	}
	if len(v6) == 0 {
		return "badmask|skip"
	}
	a := s.pool[v6[tp.Intn(len(v6))]]
	sp := spell(tp, a)
	var ipNet *net.IPNet
	var err error
	s.guarded("ParseIPNet", sp, func() { ipNet, err = banman.ParseIPNet(sp.text, net.CIDRMask(24, 32)) })
	if err != nil || ipNet == nil {
		s.rc.Probe("badmask_refused_by_parse")
		return "badmask|parse-err"
	}
	s.guarded("BanIPNet", sp, func() { err = s.store.BanIPNet(ipNet, banman.InvalidBlock, time.Hour) })
	s.rc.Logf("badmask ban %s with 4-byte mask -> err=%v", sp.text, err)
	if err != nil {
		s.rc.Probe("badmask_refused_by_store")
		s.checkNoHalfRecord("refused BanIPNet")
		return "badmask|store-err"
	}
	s.rc.Probe("badmask_accepted")
	return "badmask|accepted"
}

// checkNoHalfRecord looks at the raw buckets: every key of the ban index must
// have its reason (a ban entry without one is the half record a failed
// BanIPNet must not leave; Status would crash on it).
func (s *sim) checkNoHalfRecord(after string) {
	var bad string
	var structural string
	err := walletdb.View(s.raw, func(tx walletdb.ReadTx) error {
		top := tx.ReadBucket([]byte("ban-store"))
		if top == nil {
			structural = "ban-store bucket missing"
			return nil
		}
		bi := top.NestedReadBucket([]byte("ban-index"))
		ri := top.NestedReadBucket([]byte("reason-index"))
		if bi == nil || ri == nil {
			structural = "index bucket missing"
			return nil
		}
		return bi.ForEach(func(k, v []byte) error {
			if bad == "" && (len(ri.Get(k)) != 1 || len(v) != 8) {
				bad = hex.EncodeToString(k)
			}
			return nil
		})
	})
	if err != nil {
		s.rc.Infra("raw view: %v", err)
	}
	if structural != "" {
		// The layout moved: this white-box check no longer applies.
		s.rc.Probe("raw_layout_unknown")
		return
	}
	if bad != "" {
		s.rc.Failf("half-record", s.facts("after", after),
			"after a %s the ban index holds key %s without a well-formed reason/expiry pair", after, bad)
	}
	s.rc.Probe("raw_pairing_checked")
}

func copyFile(src, dst string) error {
	in, err := os.Open(src)
	if err != nil {
		return err
	}
	defer in.Close()
	out, err := os.Create(dst)
	if err != nil {
		return err
	}
	if _, err = io.Copy(out, in); err != nil {
		out.Close()
		return err
	}
	return out.Close()
}

var epoch2026 = time.Date(2026, 3, 1, 12, 0, 0, 0, time.UTC)

// clockHorizon bounds the simulated clock (see opAdvance).
var clockHorizon = time.Date(2140, 1, 1, 0, 0, 0, 0, time.UTC)

// stamp prints a time as seconds.nanoseconds relative to the run's start date
// (stable, zone-free).
func stamp(t time.Time) string {
	if t.IsZero() {
		return "-"
	}
	d := t.Sub(epoch2026)
	return fmt.Sprintf("T%+d.%09ds", int64(d/time.Second), int64(d%time.Second))
}

func runC13(rc *core.RunCtx) {
	tp := rc.Tape
	s := &sim{rc: rc, tp: tp, model: map[string]*rec{}, keyDesc: map[string]string{},
		everKeyed: map[string][]int{}, dbPath: filepath.Join(rc.Dir, "ban-0.db")}

	// Fake clock: a 2020s date, at a whole second (draw 0) or at a
	// tape-chosen offset inside the second.
	start := epoch2026
	switch tp.Intn(4) {
	case 1:
		start = start.Add(time.Duration(tp.Intn(1000)) * time.Millisecond)
	case 2:
		start = start.Add(time.Duration(tp.Intn(1000000000)))
	case 3:
		start = start.Add(999999999 * time.Nanosecond)
	}
	s.sleepTo(start)
	// Simulated time is counted from here (not from the bubble's year 2000).
	defer func() { rc.Res.SimNs += int64(time.Since(start)) }()

	s.faultsOn = tp.Chance(1, 3)
	nPool := tp.Range(1, 5)
	for i := 0; i < nPool; i++ {
		a := drawIdent(tp)
		// A second address is often the neighbour of an earlier one.
		if i > 0 && tp.Chance(1, 3) {
			a = s.pool[tp.Intn(len(s.pool))]
			a[15] ^= byte(1 + tp.Intn(255))
		}
		dup := false
		for _, b := range s.pool {
			dup = dup || b == a
		}
		if !dup {
			s.pool = append(s.pool, a)
		}
	}
	s.palette = []int{0}
	for i, n := 0, tp.Intn(4); i < n; i++ {
		s.palette = append(s.palette, 1+tp.Intn(len(maskV4)-1))
	}
	// Swarm: per-run operation mix.
	w := [6]int{}
	for i := range w {
		w[i] = []int{2, 1, 4, 0}[tp.Intn(4)]
	}
	w[0] = max(w[0], 1) // bans always possible
	total := 0
	for _, x := range w {
		total += x
	}
	steps := tp.Range(5, 40)
	if rc.Tier == "thorough" {
		steps = tp.Range(5, 120)
	}

	s.open(true)
	defer s.close()

	for step := 0; step < steps; step++ {
		x := tp.Intn(total)
		op := 0
		for ; op < len(w)-1 && x >= w[op]; op++ {
			x -= w[op]
		}
		var out string
		switch op {
		case 0:
			out = s.opBan()
		case 1:
			out = s.opStatus()
		case 2:
			out = s.opAdvance()
		case 3:
			out = s.opUnban()
		case 4:
			out = s.opReopen()
		default:
			if tp.Chance(1, 4) {
				out = s.opBadMask()
			} else {
				out = s.opStatus()
			}
		}
		rc.Res.Steps++
		rc.State(fmt.Sprintf("%s|live=%d", out, min(len(s.live(time.Now())), 4)))
	}

	// Final sweep, fault-free: every network this run ever named, once
	// before and once after a last clean reopen, each through a fresh
	// spelling.
	faultsWereOn := s.faultsOn
	s.faultsOn = false
	sweep := func(why string) {
		for _, k := range append([]string(nil), s.order...) {
			pi, idx := s.everKeyed[k][0], s.everKeyed[k][1]
			m := selMask(s.pool[pi], idx)
			out := s.status(pi, m, why)
			rc.State("sweep|" + out)
		}
	}
	sweep("sweep")
	s.close()
	s.epoch++
	s.open(false)
	sweep("sweep-reopened")
	s.checkNoHalfRecord("whole history")

	rc.Res.Nontrivial = s.nBan >= 1 && s.nStatusOnRec >= 1
	pool := make([]string, len(s.pool))
	for i, a := range s.pool {
		pool[i] = a.String()
	}
	rc.Res.Sample = map[string]any{"addresses": pool, "mask_palette": s.palette, "steps": steps,
		"bans": s.nBan, "status_on_record": s.nStatusOnRec, "reopens": s.nReopen, "faults": faultsWereOn,
		"networks": len(s.order)}
}
