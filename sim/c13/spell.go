package c13

import (
	"fmt"
	"net/netip"
	"strings"

	"verif/sim/core"
)

// ident is the simulator's own notion of "one IP address": the 16-byte form.
// An address whose first 96 bits are 0:0:0:0:0:ffff IS the IPv4 address in
// its last four bytes (the IPv4-mapped notation is one more way of writing
// that IPv4 address). Every spelling is rendered FROM an ident, so the oracle
// never has to parse text to know which address an operation meant.
type ident [16]byte

func (a ident) isV4() bool {
	for i := 0; i < 10; i++ {
		if a[i] != 0 {
			return false
		}
	}
	return a[10] == 0xff && a[11] == 0xff
}

func (a ident) famBits() int {
	if a.isV4() {
		return 32
	}
	return 128
}

// String is the plain canonical-ish form used in logs and messages only.
func (a ident) String() string {
	if a.isV4() {
		return fmt.Sprintf("%d.%d.%d.%d", a[12], a[13], a[14], a[15])
	}
	var h [8]uint16
	for i := range h {
		h[i] = uint16(a[2*i])<<8 | uint16(a[2*i+1])
	}
	return render6(h, 0, false, false, longestRun(groups6(h, 0, false, false)))
}

func v4ident(b0, b1, b2, b3 byte) ident {
	var a ident
	a[10], a[11] = 0xff, 0xff
	a[12], a[13], a[14], a[15] = b0, b1, b2, b3
	return a
}

// drawIdent draws an address from small alphabets so that, inside one run,
// addresses share networks under the masks in use (same /24, same /64, the
// network address itself, the IPv4-compatible twin of an IPv4 address ...).
func drawIdent(tp *core.Tape) ident {
	if tp.Intn(2) == 0 {
		b0 := []byte{1, 10, 255}[tp.Intn(3)]
		b1 := []byte{2, 0, 255}[tp.Intn(3)]
		b2 := []byte{3, 0, 4, 255}[tp.Intn(4)]
		b3 := []byte{4, 77, 0, 255, 5}[tp.Intn(5)]
		return v4ident(b0, b1, b2, b3)
	}
	h := [8]uint16{
		[]uint16{0x2001, 0xfe80, 0, 0x64}[tp.Intn(4)],
		[]uint16{0xdb8, 0, 0xff9b}[tp.Intn(3)],
		[]uint16{0, 0x85a3}[tp.Intn(2)],
		[]uint16{0, 1}[tp.Intn(2)],
		[]uint16{0, 0xffff}[tp.Intn(2)],
		[]uint16{0, 0xffff, 0xabcd}[tp.Intn(3)],
		[]uint16{0, 0x102, 0x8a2e}[tp.Intn(3)],
		[]uint16{1, 2, 0x304, 0xABCD, 0}[tp.Intn(5)],
	}
	var a ident
	for i, v := range h {
		a[2*i], a[2*i+1] = byte(v>>8), byte(v)
	}
	return a
}

// groups6 renders the colon-separated groups of an IPv6 text form. With
// dotted, the last 32 bits become one dotted-quad group. caseMode: 0 lower,
// 1 upper, 2 alternating per letter. pad: four digits per group.
func groups6(h [8]uint16, caseMode int, pad, dotted bool) []string {
	n := 8
	if dotted {
		n = 6
	}
	out := make([]string, 0, 8)
	letter := 0
	for i := 0; i < n; i++ {
		s := fmt.Sprintf("%x", h[i])
		if pad {
			s = fmt.Sprintf("%04x", h[i])
		}
		b := []byte(s)
		for j, c := range b {
			if c >= 'a' && c <= 'f' {
				if caseMode == 1 || (caseMode == 2 && letter%2 == 0) {
					b[j] = c - 'a' + 'A'
				}
				letter++
			}
		}
		out = append(out, string(b))
	}
	if dotted {
		out = append(out, fmt.Sprintf("%d.%d.%d.%d", h[6]>>8, h[6]&0xff, h[7]>>8, h[7]&0xff))
	}
	return out
}

type zrun struct{ start, n int }

func isZeroGroup(s string) bool { return strings.Trim(s, "0") == "" }

// zeroRuns lists the maximal runs of all-zero hex groups.
func zeroRuns(g []string) []zrun {
	var runs []zrun
	for i := 0; i < len(g); {
		if !isZeroGroup(g[i]) {
			i++
			continue
		}
		j := i
		for j < len(g) && isZeroGroup(g[j]) {
			j++
		}
		runs = append(runs, zrun{i, j - i})
		i = j
	}
	return runs
}

func longestRun(g []string) zrun {
	best := zrun{-1, 0}
	for _, r := range zeroRuns(g) {
		if r.n > best.n {
			best = r
		}
	}
	return best
}

func render6(h [8]uint16, caseMode int, pad, dotted bool, comp zrun) string {
	g := groups6(h, caseMode, pad, dotted)
	if comp.start < 0 || comp.n == 0 {
		return strings.Join(g, ":")
	}
	return strings.Join(g[:comp.start], ":") + "::" + strings.Join(g[comp.start+comp.n:], ":")
}

// spelling is one textual form of an address.
type spelling struct {
	text string
	// form is the coarse class used in violation facts.
	form string
}

var ports = []string{"8333", "18444", "0", "65535", "1"}

// spell draws one textual form of a. Value 0 of every draw is the plainest
// form (dotted quad / RFC 5952 lower-case, no port).
func spell(tp *core.Tape, a ident) spelling {
	var h [8]uint16
	for i := range h {
		h[i] = uint16(a[2*i])<<8 | uint16(a[2*i+1])
	}
	withPort := false
	var sp spelling
	if a.isV4() && tp.Intn(2) == 0 {
		sp.text = fmt.Sprintf("%d.%d.%d.%d", a[12], a[13], a[14], a[15])
		sp.form = "v4-dotted"
		if tp.Intn(2) == 1 {
			sp.text += ":" + ports[tp.Intn(len(ports))]
			sp.form = "v4-dotted-port"
		}
		return sp
	}
	// IPv6 text form (for an IPv4 ident: the IPv4-mapped notation).
	dotted := false
	if a.isV4() {
		dotted = tp.Intn(3) != 1 // mostly ::ffff:1.2.3.4, sometimes ::ffff:102:304
	} else {
		dotted = tp.Chance(1, 5)
	}
	caseMode := tp.Intn(3)
	pad := tp.Chance(1, 3)
	g := groups6(h, caseMode, pad, dotted)
	runs := zeroRuns(g)
	comp := longestRun(g)
	if len(runs) > 0 {
		switch c := tp.Intn(len(runs) + 2); {
		case c == 0:
			// RFC 5952 choice: the longest run.
		case c <= len(runs):
			comp = runs[c-1]
			// Sometimes compress only part of the run ("::" may stand
			// for any number >= 1 of zero groups).
			if comp.n > 1 && tp.Chance(1, 3) {
				n := 1 + tp.Intn(comp.n-1)
				if tp.Intn(2) == 1 {
					comp.start += comp.n - n
				}
				comp.n = n
			}
		default:
			comp = zrun{-1, 0} // fully expanded
		}
	}
	sp.text = render6(h, caseMode, pad, dotted, comp)
	sp.form = "v6"
	if a.isV4() {
		sp.form = "v4-mapped"
	}
	withPort = tp.Intn(2) == 1
	if withPort {
		sp.text = "[" + sp.text + "]:" + ports[tp.Intn(len(ports))]
		sp.form += "-port"
	}
	return sp
}

// denotes is the harness self-check: the rendered text, stripped of port and
// brackets, must parse (with the standard library, not the code under test)
// to exactly the ident it was rendered from.
func denotes(text string, a ident) bool {
	host := text
	if strings.HasPrefix(host, "[") {
		i := strings.Index(host, "]")
		if i < 0 {
			return false
		}
		host = host[1:i]
	} else if strings.Count(host, ":") == 1 {
		host = host[:strings.Index(host, ":")]
	}
	p, err := netip.ParseAddr(host)
	if err != nil {
		return false
	}
	return p.As16() == [16]byte(a)
}
