package c13

import (
	"testing"

	"verif/sim/core"
)

func TestRun(t *testing.T) { core.MainRegistered(t) }
