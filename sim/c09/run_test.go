package c09

import (
	"testing"

	"verif/sim/core"
)

func TestRun(t *testing.T) { core.MainRegistered(t) }
