// Package c09 checks property C09 (rescan callbacks form a consistent chain
// walk and miss no relevant transaction): the real neutrino.Rescan runs inside
// a testing/synctest bubble against a simulator-owned ChainSource and a real
// blockntfns.SubscriptionManager fed from the model chain.
package c09

import (
	"fmt"
	"strings"
	"testing"
	"testing/synctest"
	"time"

	"verif/sim/core"
)

// bubble runs body inside a synctest bubble (same contract as e3.Bubble; kept
// local so that this engine binary depends on no other engine package).
func bubble(t *testing.T, rc *core.RunCtx, body func()) {
	defer func() {
		if r := recover(); r != nil {
			msg := fmt.Sprint(r)
			if strings.Contains(msg, "deadlock") || strings.Contains(msg, "blocked goroutines remain") {
				rc.Probe("bubble_left_with_blocked_goroutines")
				if rc.Res.Violation == nil && rc.Res.InfraError == "" {
					rc.Res.InfraError = "bubble could not be left cleanly: " + msg
				}
				return
			}
			if rc.Res.InfraError == "" {
				rc.Res.InfraError = "panic outside bubble body: " + msg
			}
		}
	}()
	synctest.Test(t, func(t *testing.T) {
		start := time.Now()
		core.Guard(rc, body)
		rc.Res.SimNs += int64(time.Since(start))
	})
}
