package c09

import (
	"crypto/sha256"
	"encoding/hex"
	"errors"
	"fmt"
	"sort"
	"strings"
	"sync"
	"testing"
	"testing/synctest"
	"time"

	"github.com/btcsuite/btcd/btcjson"
	"github.com/btcsuite/btcd/btcutil/v2"
	"github.com/btcsuite/btcd/btcutil/v2/gcs"
	"github.com/btcsuite/btcd/chaincfg/v2"
	"github.com/btcsuite/btcd/chainhash/v2"
	"github.com/btcsuite/btcd/rpcclient"
	"github.com/btcsuite/btcd/wire/v2"
	"github.com/lightninglabs/neutrino"
	"github.com/lightninglabs/neutrino/blockntfns"
	"github.com/lightninglabs/neutrino/headerfs"

	"verif/sim/chainmodel"
	"verif/sim/core"
)

func init() { core.Register("C09", RunC09) }

// RunC09 is the engine function for C09.
func RunC09(t *testing.T, rc *core.RunCtx) {
	bubble(t, rc, func() { runC09(rc) })
}

// ---------------------------------------------------------------------------
// Simulator state.

// call is one ChainSource call parked until the driver answers it.
type call struct {
	kind   string
	hash   chainhash.Hash
	height uint32
	reply  chan int // 0 ok, 1 fetch failure, 2 header of a stale block not found
}

// callRec is the recorded answer of an early ChainSource call (used to
// resolve which block the rescan started from).
type callRec struct {
	kind      string
	resHash   chainhash.Hash
	resHeight int32
	err       bool
}

// cbRec is one recorded callback.
type cbRec struct {
	conn   bool
	height int32
	hash   chainhash.Hash
	txs    map[chainhash.Hash]bool
	via    string // how the rescan obtained the block: "height" (catch-up) | "ntfn" | ""
	filt   string // last GetCFilter answer for this block: "" | "ok" | "fail" | "notfound"
}

type updSpec struct {
	id       int
	keys     []int
	inputs   []neutrino.InputWithScript
	rewind   uint32
	silent   bool // DisableDisconnectedNtfns: the rewind is not reported
	returned bool
	err      error
	doneF    int // len(filtered callbacks) when Update returned
	doneL    int // len(legacy callbacks) when Update returned
}

// relay sits between a real subscription and the rescan: events are produced
// and queued by the real SubscriptionManager; the driver decides when the
// rescan receives the next one, so that the rescan's select never has two
// ready cases (Go would pick between them with its own randomness).
type relay struct {
	inner     *blockntfns.Subscription
	outer     chan blockntfns.BlockNtfn
	cancelled bool
}

type sim struct {
	rc   *core.RunCtx
	tp   *core.Tape
	tree *chainmodel.Tree

	mu    sync.Mutex
	store []*chainmodel.Block // simulator-owned best chain, index == height
	salt  uint32

	// the engine's own miner (blocks.go)
	addrs    []addrInfo                   // watchable addresses: P2WPKH then P2PKH of each key
	pools    map[*chainmodel.Block][]utxo // candidate unspent outputs per branch
	inForm   map[chainhash.Hash]string    // txid -> why its input's spent script cannot be derived
	pkhW     int                          // weight of P2PKH outputs (ordinary outputs: 6)
	bareW    int                          // weight of bare outputs
	oddN     int                          // of 4 spends of a P2PKH output, how many are not push-only
	scOnlyN  int                          // of 12 arbitrary watched inputs, how many are script-only
	modelBug string

	srcCh chan blockntfns.BlockNtfn
	held  []blockntfns.BlockNtfn // emitted by the chain, not yet offered to the manager
	mgr   *blockntfns.SubscriptionManager

	parked   *call
	calls    []callRec
	live     *relay
	rescan   *neutrino.Rescan
	errChan  <-chan error
	exited   bool
	exitErr  error
	quit     chan struct{}
	quitDone bool

	via         string
	lastFilt    map[chainhash.Hash]string
	fcb, lcb    []cbRec
	legacyTxs   map[string][]chainhash.Hash
	updates     []*updSpec
	notCurLeft  int
	sawNotCur   bool
	isCurAlways bool

	// naive position for probes only
	posKnown     bool
	pos          *chainmodel.Block
	retryPending bool
	consecFails  int
	fedF, fedL   int
}

func (s *sim) tip() *chainmodel.Block { return s.store[len(s.store)-1] }

func (s *sim) onStore(b *chainmodel.Block) bool {
	return b != nil && int(b.Height) < len(s.store) && s.store[b.Height] == b
}

// ---------------------------------------------------------------------------
// NotificationSource (what the block manager is to the real subscription
// manager): live events come from the driver, the backlog is read from the
// store as it is at the time of the request, as the block manager does.

type source struct{ s *sim }

func (src *source) Notifications() <-chan blockntfns.BlockNtfn { return src.s.srcCh }

func (src *source) NotificationsSinceHeight(h uint32) ([]blockntfns.BlockNtfn, uint32, error) {
	s := src.s
	s.mu.Lock()
	defer s.mu.Unlock()
	best := uint32(len(s.store) - 1)
	if h == 0 || h == best {
		return nil, best, nil
	}
	if h > best {
		s.rc.Probe("backlog_height_above_best")
		return nil, 0, fmt.Errorf("request with height %d is greater than best height known %d", h, best)
	}
	var out []blockntfns.BlockNtfn
	for i := h + 1; i <= best; i++ {
		out = append(out, blockntfns.NewBlockConnected(s.store[i].Hdr, i))
	}
	s.rc.Probe("backlog_nonempty")
	if len(s.held) > 0 {
		s.rc.Probe("backlog_overlaps_pending_live_events")
	}
	return out, best, nil
}

// ---------------------------------------------------------------------------
// ChainSource.

type chainSrc struct{ s *sim }

var _ neutrino.ChainSource = (*chainSrc)(nil)

func (s *sim) park(kind string, hash *chainhash.Hash, height uint32) int {
	c := &call{kind: kind, height: height, reply: make(chan int, 1)}
	if hash != nil {
		c.hash = *hash
	}
	s.mu.Lock()
	if s.parked != nil {
		s.mu.Unlock()
		panic("c09: two ChainSource calls in flight")
	}
	s.parked = c
	s.mu.Unlock()
	return <-c.reply
}

func (s *sim) rec(r callRec) {
	if len(s.calls) < 24 {
		s.calls = append(s.calls, r)
	}
}

func (c *chainSrc) ChainParams() chaincfg.Params { return *c.s.tree.P }

func (c *chainSrc) BestBlock() (*headerfs.BlockStamp, error) {
	s := c.s
	s.park("BestBlock", nil, 0)
	s.mu.Lock()
	defer s.mu.Unlock()
	t := s.tip()
	s.rec(callRec{kind: "BestBlock", resHash: t.Hash, resHeight: t.Height})
	return &headerfs.BlockStamp{Height: t.Height, Hash: t.Hash, Timestamp: t.Hdr.Timestamp}, nil
}

func (c *chainSrc) GetBlockHeaderByHeight(h uint32) (*wire.BlockHeader, error) {
	s := c.s
	s.park("HdrByHeight", nil, h)
	s.mu.Lock()
	defer s.mu.Unlock()
	s.via = "height"
	if int(h) >= len(s.store) {
		s.rec(callRec{kind: "HdrByHeight", err: true})
		return nil, errors.New("sim: block height not found")
	}
	b := s.store[h]
	s.rec(callRec{kind: "HdrByHeight", resHash: b.Hash, resHeight: b.Height})
	hdr := b.Hdr
	return &hdr, nil
}

func (c *chainSrc) GetBlockHeader(hash *chainhash.Hash) (*wire.BlockHeader, uint32, error) {
	s := c.s
	s.park("HdrByHash", hash, 0)
	s.mu.Lock()
	defer s.mu.Unlock()
	b := s.tree.ByHash[*hash]
	if !s.onStore(b) {
		s.rec(callRec{kind: "HdrByHash", err: true})
		return nil, 0, errors.New("sim: block header not found")
	}
	s.rec(callRec{kind: "HdrByHash", resHash: b.Hash, resHeight: b.Height})
	hdr := b.Hdr
	return &hdr, uint32(b.Height), nil
}

func (c *chainSrc) GetFilterHeaderByHeight(h uint32) (*chainhash.Hash, error) {
	s := c.s
	s.park("FHdrByHeight", nil, h)
	s.mu.Lock()
	defer s.mu.Unlock()
	s.via = "ntfn"
	if int(h) >= len(s.store) {
		s.rc.Probe("filter_header_missing_for_notified_block")
		return nil, errors.New("sim: filter header not found")
	}
	fh := s.tree.FilterHeader(s.store[h])
	return &fh, nil
}

func (c *chainSrc) GetCFilter(hash chainhash.Hash, ft wire.FilterType,
	_ ...neutrino.QueryOption) (*gcs.Filter, error) {

	s := c.s
	v := s.park("GetCFilter", &hash, 0)
	s.mu.Lock()
	defer s.mu.Unlock()
	b := s.tree.ByHash[hash]
	switch {
	case v == 1:
		s.lastFilt[hash] = "fail"
		if s.via == "ntfn" {
			s.retryPending = true
		}
		return nil, errors.New("sim: filter fetch failed")
	case b == nil || (v == 2 && !s.onStore(b)):
		// What ChainService.GetCFilter returns when the filter is not
		// cached and the header is gone (prepareCFiltersQuery wraps the
		// index error; it never surfaces bare).
		s.lastFilt[hash] = "notfound"
		return nil, fmt.Errorf("unable to get header for start block=%v: %v", hash, headerfs.ErrHashNotFound)
	}
	s.lastFilt[hash] = "ok"
	f, _, _ := s.tree.Filter(b)
	return f, nil
}

func (c *chainSrc) GetBlock(hash chainhash.Hash, _ ...neutrino.QueryOption) (*btcutil.Block, error) {
	s := c.s
	v := s.park("GetBlock", &hash, 0)
	s.mu.Lock()
	defer s.mu.Unlock()
	b := s.tree.ByHash[hash]
	if v == 1 {
		return nil, errors.New("sim: block fetch failed")
	}
	if !s.onStore(b) {
		// The real service looks the header up first.
		s.rc.Probe("block_fetch_of_stale_block_refused")
		return nil, fmt.Errorf("couldn't get header for block %s from database", hash)
	}
	blk := btcutil.NewBlock(b.Msg)
	blk.SetHeight(b.Height)
	return blk, nil
}

func (c *chainSrc) Subscribe(h uint32) (*blockntfns.Subscription, error) {
	s := c.s
	s.park("Subscribe", nil, h)
	inner, err := s.mgr.NewSubscription(h)
	if err != nil {
		s.rc.Probe("subscribe_refused")
		return nil, err
	}
	r := &relay{inner: inner, outer: make(chan blockntfns.BlockNtfn, 1)}
	s.mu.Lock()
	s.live = r
	s.mu.Unlock()
	return &blockntfns.Subscription{
		Notifications: r.outer,
		Cancel: func() {
			s.mu.Lock()
			r.cancelled = true
			s.mu.Unlock()
			inner.Cancel()
		},
	}, nil
}

func (c *chainSrc) IsCurrent() bool {
	s := c.s
	v := s.park("IsCurrent", nil, 0)
	return v == 0
}

// ---------------------------------------------------------------------------
// Callbacks (run in the rescan goroutine).

func (s *sim) handlers(mode int) rpcclient.NotificationHandlers {
	var h rpcclient.NotificationHandlers
	movePos := func(conn bool, hash chainhash.Hash) {
		b := s.tree.ByHash[hash]
		if b == nil {
			s.posKnown = false
			return
		}
		if conn {
			s.pos, s.posKnown = b, true
			if s.retryPending {
				s.rc.Probe("block_connected_after_filter_retry")
			}
			s.retryPending = false
		} else if b.Parent != nil {
			s.pos, s.posKnown = b.Parent, true
		}
	}
	if mode != 3 {
		h.OnFilteredBlockConnected = func(height int32, hdr *wire.BlockHeader, txs []*btcutil.Tx) {
			s.mu.Lock()
			defer s.mu.Unlock()
			r := cbRec{conn: true, height: height, hash: hdr.BlockHash(), via: s.via, txs: map[chainhash.Hash]bool{}}
			r.filt = s.lastFilt[r.hash]
			for _, tx := range txs {
				r.txs[*tx.Hash()] = true
			}
			s.fcb = append(s.fcb, r)
			movePos(true, r.hash)
		}
		h.OnFilteredBlockDisconnected = func(height int32, hdr *wire.BlockHeader) {
			s.mu.Lock()
			defer s.mu.Unlock()
			r := cbRec{height: height, hash: hdr.BlockHash(), via: s.via}
			s.fcb = append(s.fcb, r)
			movePos(false, r.hash)
		}
	}
	if mode >= 2 {
		note := func(tx *btcutil.Tx, d *btcjson.BlockDetails) {
			s.mu.Lock()
			defer s.mu.Unlock()
			s.legacyTxs[d.Hash] = append(s.legacyTxs[d.Hash], *tx.Hash())
		}
		h.OnRecvTx = note                                                            // nolint:staticcheck
		h.OnRedeemingTx = note                                                       // nolint:staticcheck
		h.OnBlockConnected = func(hash *chainhash.Hash, height int32, _ time.Time) { // nolint:staticcheck
			s.mu.Lock()
			defer s.mu.Unlock()
			r := cbRec{conn: true, height: height, hash: *hash, via: s.via, txs: map[chainhash.Hash]bool{}}
			r.filt = s.lastFilt[r.hash]
			for _, th := range s.legacyTxs[hash.String()] {
				r.txs[th] = true
			}
			delete(s.legacyTxs, hash.String())
			s.lcb = append(s.lcb, r)
			if mode == 3 {
				movePos(true, r.hash)
			}
		}
		h.OnBlockDisconnected = func(hash *chainhash.Hash, height int32, _ time.Time) { // nolint:staticcheck
			s.mu.Lock()
			defer s.mu.Unlock()
			r := cbRec{height: height, hash: *hash, via: s.via}
			s.lcb = append(s.lcb, r)
			if mode == 3 {
				movePos(false, r.hash)
			}
		}
	}
	return h
}

// ---------------------------------------------------------------------------
// Chain mutations and event release.

func (s *sim) mine(parent *chainmodel.Block) *chainmodel.Block {
	tp := s.tp
	s.salt++
	o := mineOpts{NTx: tp.Intn(4), PayTo: tp.Intn(nKeys), Salt: s.salt}
	if tp.Chance(1, 6) {
		// A timestamp that runs backwards (the miner clamps it above the
		// median time past).
		o.Time = parent.Hdr.Timestamp.Add(-5 * time.Minute)
	}
	return s.extend(parent, o)
}

// offer hands one event to the real subscription manager and waits until it
// has been taken and fanned out.
func (s *sim) offer(n blockntfns.BlockNtfn) {
	if len(s.srcCh) != 0 {
		s.rc.Infra("subscription manager did not take the previous notification")
	}
	s.srcCh <- n
	synctest.Wait()
	if len(s.srcCh) != 0 {
		s.rc.Infra("subscription manager is not taking notifications")
	}
}

func (s *sim) flushHeld() {
	for len(s.held) > 0 {
		n := s.held[0]
		s.held = s.held[1:]
		s.offer(n)
	}
}

func (s *sim) grow(k int, hold bool) {
	if !hold {
		s.flushHeld()
	}
	for i := 0; i < k; i++ {
		s.mu.Lock()
		b := s.mine(s.tip())
		s.store = append(s.store, b)
		s.mu.Unlock()
		n := blockntfns.NewBlockConnected(b.Hdr, uint32(b.Height))
		if hold {
			s.held = append(s.held, n)
		} else {
			s.offer(n)
		}
	}
}

func (s *sim) disconnect(d int) int {
	s.flushHeld()
	done := 0
	for i := 0; i < d && len(s.store) > 2; i++ {
		s.mu.Lock()
		b := s.tip()
		s.store = s.store[:len(s.store)-1]
		nt := s.tip()
		if s.posKnown && b.IsAncestorOf(s.pos) {
			if s.via == "height" {
				s.rc.Probe("walked_block_reorged_out_during_catchup")
			} else {
				s.rc.Probe("walked_block_reorged_out")
			}
		}
		if s.retryPending {
			s.rc.Probe("reorg_while_block_waits_for_retry")
		}
		s.mu.Unlock()
		s.offer(blockntfns.NewBlockDisconnected(b.Hdr, uint32(b.Height), nt.Hdr))
		done++
	}
	return done
}

func (s *sim) relayAvail() bool {
	r := s.live
	return r != nil && !r.cancelled && len(r.inner.Notifications) > 0
}

func (s *sim) deliver() {
	r := s.live
	if s.retryPending {
		s.rc.Probe("event_received_while_block_waits_for_retry")
	}
	select {
	case n, ok := <-r.inner.Notifications:
		if !ok {
			return
		}
		select {
		case r.outer <- n:
		default:
			s.rc.Infra("rescan is not reading its subscription although it looked idle")
		}
	default:
	}
}

// ---------------------------------------------------------------------------

const (
	stExited = iota
	stParked
	stIdle
)

func (s *sim) state() (int, *call) {
	s.mu.Lock()
	defer s.mu.Unlock()
	if !s.exited {
		select {
		case err := <-s.errChan:
			s.exited, s.exitErr = true, err
		default:
		}
	}
	if s.exited {
		return stExited, nil
	}
	if s.parked != nil {
		return stParked, s.parked
	}
	return stIdle, nil
}

func (s *sim) answer(c *call, v int) {
	s.mu.Lock()
	s.parked = nil
	s.mu.Unlock()
	c.reply <- v
}

func pick(tp *core.Tape, w ...int) int {
	tot := 0
	for _, x := range w {
		tot += x
	}
	v := tp.Intn(tot)
	for i, x := range w {
		if v < x {
			return i
		}
		v -= x
	}
	return 0
}

func (s *sim) pendingUpdaters() int {
	s.mu.Lock()
	defer s.mu.Unlock()
	n := 0
	for _, u := range s.updates {
		if !u.returned {
			n++
		}
	}
	return n
}

func (s *sim) pickInput() (neutrino.InputWithScript, bool) {
	tp := s.tp
	if tp.Chance(s.scOnlyN, 12) {
		// Script-only watch: any spend of this script (as far as the
		// script can be derived from the spending input).
		n := nKeys
		if s.pkhW > 0 {
			n = len(s.addrs)
		}
		return neutrino.InputWithScript{PkScript: s.addrs[tp.Intn(n)].Script}, true
	}
	b := s.store[tp.Intn(len(s.store))]
	pool := s.pool(b)
	if len(pool) == 0 {
		return neutrino.InputWithScript{}, false
	}
	u := pool[tp.Intn(len(pool))]
	return neutrino.InputWithScript{OutPoint: u.Op, PkScript: u.Script}, true
}

// pickAddr draws a watchable address (index into s.addrs); the P2PKH
// addresses only in runs whose chain has such outputs.
func (s *sim) pickAddr() int {
	k := s.tp.Intn(nKeys)
	if s.pkhW > 0 && s.tp.Chance(1, 2) {
		k += nKeys
	}
	return k
}

func (s *sim) sendUpdate(st int) {
	tp := s.tp
	u := &updSpec{id: len(s.updates), doneF: -1, doneL: -1}
	var opts []neutrino.UpdateOption
	kind := tp.Intn(6)
	if kind == 0 || kind == 2 || kind == 5 {
		k := s.pickAddr()
		u.keys = append(u.keys, k)
		opts = append(opts, neutrino.AddAddrs(s.addrs[k].Addr))
	}
	if kind == 1 || kind == 3 || kind == 5 {
		for i := 0; i < 1+tp.Intn(2); i++ {
			if in, ok := s.pickInput(); ok {
				u.inputs = append(u.inputs, in)
			}
		}
		opts = append(opts, neutrino.AddInputs(u.inputs...))
	}
	if kind >= 2 && kind <= 4 {
		u.rewind = uint32(tp.Intn(len(s.store)))
		opts = append(opts, neutrino.Rewind(u.rewind))
		if tp.Chance(1, 4) {
			u.silent = true
			opts = append(opts, neutrino.DisableDisconnectedNtfns(true))
		}
		if s.posKnown && u.rewind != 0 && int32(u.rewind) < s.pos.Height {
			s.rc.Probe("update_rewind_below_position")
		}
	}
	s.mu.Lock()
	s.updates = append(s.updates, u)
	noCb := len(s.fcb)+len(s.lcb) == 0
	s.mu.Unlock()
	switch {
	case noCb:
		s.rc.Probe("update_before_first_callback")
	case st == stParked:
		s.rc.Probe("update_while_chain_call_outstanding")
	default:
		s.rc.Probe("update_while_waiting_for_events")
	}
	if s.retryPending {
		s.rc.Probe("update_while_block_waits_for_retry")
	}
	s.rc.Logf("update %d: addrs=%v inputs=%s rewind=%d silent=%v", u.id, u.keys, descInputs(u.inputs), u.rewind, u.silent)
	go func() {
		err := s.rescan.Update(opts...)
		s.mu.Lock()
		u.returned, u.err = true, err
		if err == nil {
			u.doneF, u.doneL = len(s.fcb), len(s.lcb)
		}
		s.mu.Unlock()
	}()
}

// feedStates turns newly recorded callbacks into abstract states (fingerprint).
func (s *sim) feedStates() {
	s.mu.Lock()
	defer s.mu.Unlock()
	for ; s.fedF < len(s.fcb); s.fedF++ {
		r := s.fcb[s.fedF]
		s.rc.State(fmt.Sprintf("f|%v|%s|tx%d", r.conn, r.via, len(r.txs)))
		s.rc.Logf("  callback filtered conn=%v height=%d %s txs=%d via=%s", r.conn, r.height, r.hash.String()[:10], len(r.txs), r.via)
	}
	for ; s.fedL < len(s.lcb); s.fedL++ {
		r := s.lcb[s.fedL]
		s.rc.State(fmt.Sprintf("l|%v|%s|tx%d", r.conn, r.via, len(r.txs)))
		s.rc.Logf("  callback legacy conn=%v height=%d %s txs=%d via=%s", r.conn, r.height, r.hash.String()[:10], len(r.txs), r.via)
	}
}

func clamp(v, lo, hi int) int {
	if v < lo {
		return lo
	}
	if v > hi {
		return hi
	}
	return v
}

// ---------------------------------------------------------------------------

type runCfg struct {
	L0           int
	startVariant int
	startHeight  int
	startTimeVar int
	endVariant   int
	handlerMode  int
	faults       bool
	failW        int
	growW, discW int
	holdOK       bool
	maxUpdates   int
	steps        int
	oddSpends    bool // P2PKH / bare outputs and spends whose script cannot be derived
}

func runC09(rc *core.RunCtx) {
	tp := rc.Tape
	s := &sim{rc: rc, tp: tp, lastFilt: map[chainhash.Hash]string{}, legacyTxs: map[string][]chainhash.Hash{}}
	s.tree = chainmodel.NewTree(chainmodel.NewParams(chainmodel.ParamOpts{}))
	s.store = []*chainmodel.Block{s.tree.Genesis}
	s.pools = map[*chainmodel.Block][]utxo{}
	s.inForm = map[chainhash.Hash]string{}
	s.initAddrs()
	s.srcCh = make(chan blockntfns.BlockNtfn, 1)
	s.quit = make(chan struct{})

	// Per-run configuration (swarm style).
	var cfg runCfg
	cfg.L0 = tp.Range(2, 12)
	cfg.startVariant = tp.Intn(6)
	cfg.startHeight = tp.Intn(cfg.L0 + 1)
	cfg.startTimeVar = tp.Intn(5)
	cfg.endVariant = tp.Intn(8)
	cfg.handlerMode = tp.Intn(4)
	cfg.faults = tp.Chance(1, 2)
	cfg.failW = 5 + tp.Intn(25)
	cfg.growW = 4 + tp.Intn(16)
	cfg.discW = tp.Intn(12)
	cfg.holdOK = tp.Chance(1, 2)
	cfg.maxUpdates = tp.Intn(5)
	cfg.steps = tp.Range(20, 110)
	if rc.Tier == "thorough" {
		cfg.steps = tp.Range(20, 220)
	}
	s.notCurLeft = tp.Intn(3)
	// Unusual but legal outputs and spends (benign choice: none, every
	// output is P2WPKH and every spend carries the ordinary witness).
	s.scOnlyN = 2
	if cfg.oddSpends = tp.Chance(2, 3); cfg.oddSpends {
		s.pkhW = tp.Intn(7)
		s.bareW = tp.Intn(4)
		s.oddN = tp.Intn(4)
		s.scOnlyN = 2 + tp.Intn(5)
	}

	for i := 0; i < cfg.L0; i++ {
		s.store = append(s.store, s.mine(s.tip()))
	}

	// Rescan options.
	var opts []neutrino.RescanOption
	opts = append(opts, neutrino.NotificationHandlers(s.handlers(cfg.handlerMode)), neutrino.QuitChan(s.quit))
	sh := cfg.startHeight
	var startOpt *headerfs.BlockStamp
	switch cfg.startVariant {
	case 0: // not given: the chain's best block
	case 1: // by hash (height field wrong on purpose half of the time)
		startOpt = &headerfs.BlockStamp{Hash: s.store[sh].Hash, Height: int32(sh)}
		if tp.Chance(1, 2) {
			startOpt.Height = int32(tp.Intn(cfg.L0 + 1))
		}
	case 2: // by height
		startOpt = &headerfs.BlockStamp{Height: int32(sh)}
	case 3: // genesis
		startOpt = &headerfs.BlockStamp{}
	case 4: // a hash the chain does not know (a stale sibling), then by height
		if sh == 0 {
			sh = 1
		}
		sib := s.mine(s.store[sh-1])
		startOpt = &headerfs.BlockStamp{Hash: sib.Hash, Height: int32(sh)}
	case 5: // a height the chain has not reached
		startOpt = &headerfs.BlockStamp{Height: int32(cfg.L0 + 1 + tp.Intn(3))}
	}
	if startOpt != nil {
		opts = append(opts, neutrino.StartBlock(startOpt))
	}
	var startTime time.Time
	switch cfg.startTimeVar {
	case 0, 1: // none
	case 2, 3: // the timestamp of some block at or after the start height
		t := sh
		if t > cfg.L0 {
			t = cfg.L0
		}
		t += tp.Intn(cfg.L0 - t + 1)
		startTime = s.store[t].Hdr.Timestamp
		if cfg.startTimeVar == 3 {
			startTime = startTime.Add(-time.Second)
		}
	case 4: // a little in the future of the current tip
		startTime = s.tip().Hdr.Timestamp.Add(time.Duration(5+tp.Intn(40)) * time.Minute)
	}
	if !startTime.IsZero() {
		opts = append(opts, neutrino.StartTime(startTime))
	}
	var endOpt *headerfs.BlockStamp
	switch cfg.endVariant {
	case 5:
		endOpt = &headerfs.BlockStamp{Height: int32(sh + 1 + tp.Intn(cfg.L0+6))}
	case 6:
		e := tp.Intn(cfg.L0 + 1)
		endOpt = &headerfs.BlockStamp{Hash: s.store[e].Hash}
	}
	if endOpt != nil {
		opts = append(opts, neutrino.EndBlock(endOpt))
	}
	var initKeys []int
	for i := 0; i < tp.Intn(3); i++ {
		k := s.pickAddr()
		initKeys = append(initKeys, k)
		opts = append(opts, neutrino.WatchAddrs(s.addrs[k].Addr))
	}
	var initInputs []neutrino.InputWithScript
	nInit := tp.Intn(3)
	if cfg.oddSpends {
		nInit = tp.Intn(4)
	}
	for i := 0; i < nInit; i++ {
		var in neutrino.InputWithScript
		ok := false
		if tp.Chance(1, 2) {
			// an output unspent at the start block: spent soon after it
			base := sh
			if base > cfg.L0 {
				base = cfg.L0
			}
			if pool := s.pool(s.store[base]); len(pool) > 0 {
				u := pool[tp.Intn(len(pool))]
				in, ok = neutrino.InputWithScript{OutPoint: u.Op, PkScript: u.Script}, true
			}
		} else {
			in, ok = s.pickInput()
		}
		if ok {
			initInputs = append(initInputs, in)
			opts = append(opts, neutrino.WatchInputs(in))
		}
	}
	// The rescan writes into the stamps it is given; keep pristine copies.
	var startCopy, endCopy *headerfs.BlockStamp
	if startOpt != nil {
		c := *startOpt
		startCopy = &c
	}
	if endOpt != nil {
		c := *endOpt
		endCopy = &c
	}
	rc.Logf("cfg %+v start=%v startTime=%v end=%v addrs=%v inputs=%s", cfg, startOpt, !startTime.IsZero(), endOpt, initKeys, descInputs(initInputs))
	rc.Logf("outputs: weights wpkh=6 pkh=%d bare=%d; non push-only spends of P2PKH outputs %d/4; script-only watches %d/12", s.pkhW, s.bareW, s.oddN, s.scOnlyN)
	rc.Probe(fmt.Sprintf("start_variant_%d", cfg.startVariant))

	s.mgr = blockntfns.NewSubscriptionManager(&source{s})
	s.mgr.Start()
	s.rescan = neutrino.NewRescan(&chainSrc{s}, opts...)
	s.errChan = s.rescan.Start()
	defer s.shutdown()

	updatesLeft := cfg.maxUpdates
	for step := 0; step < cfg.steps; step++ {
		synctest.Wait()
		s.feedStates()
		st, c := s.state()
		if st == stExited {
			break
		}
		// Abstract state reached (everything else is blocked now, so
		// reading the rescan-side fields is race free).
		{
			k := "idle"
			if st == stParked {
				k = c.kind
			}
			d := 0
			if s.posKnown {
				d = clamp(len(s.store)-1-int(s.pos.Height), -3, 5)
			}
			rc.State(fmt.Sprintf("%s|%s|d%d|h%v|r%v", k, s.via, d, len(s.held) > 0, s.retryPending))
		}
		nUpd := 0
		if updatesLeft > 0 && s.pendingUpdaters() < 2 {
			nUpd = 5
		}
		relW := 0
		if len(s.held) > 0 {
			relW = 10
		}
		if st == stParked {
			failW := 0
			if cfg.faults && (c.kind == "GetCFilter" || c.kind == "GetBlock") && s.consecFails < 3 {
				failW = cfg.failW
				if s.via == "height" {
					// any fetch failure ends a rescan that is
					// catching up; keep most of them alive
					failW = 1 + failW/8
				}
			}
			switch pick(tp, 60, failW, cfg.growW, cfg.discW, nUpd, relW) {
			case 0:
				s.answerOK(c)
			case 1:
				s.consecFails++
				rc.Fault(c.kind + "_fail")
				rc.Logf("step %d: %s(%s) fails", step, c.kind, c.hash.String()[:10])
				s.answer(c, 1)
			case 2:
				s.stepGrow(step, cfg)
			case 3:
				s.stepDisc(step, cfg)
			case 4:
				updatesLeft--
				s.sendUpdate(st)
			case 5:
				s.stepRelease(step)
			}
		} else {
			delW := 0
			if s.relayAvail() {
				delW = 50
			}
			switch pick(tp, delW, 15, cfg.growW+6, cfg.discW, nUpd, relW) {
			case 0:
				rc.Logf("step %d: rescan receives the next block event", step)
				s.deliver()
			case 1:
				rc.Logf("step %d: 100ms pass", step)
				time.Sleep(100 * time.Millisecond)
			case 2:
				s.stepGrow(step, cfg)
			case 3:
				s.stepDisc(step, cfg)
			case 4:
				updatesLeft--
				s.sendUpdate(st)
			case 5:
				s.stepRelease(step)
			}
		}
		rc.Res.Steps++
	}

	// Drain: no more faults, no more chain changes; everything outstanding
	// is answered and delivered so that the rescan settles.
	s.isCurAlways = true
	if s.sawNotCur {
		if st, _ := s.state(); st != stExited {
			s.grow(1, false)
		}
	}
	quiet := 0
	for i := 0; ; i++ {
		if i > 6000 {
			rc.Infra("rescan did not settle within the drain bound")
		}
		synctest.Wait()
		s.feedStates()
		st, c := s.state()
		if st == stExited {
			break
		}
		if st == stParked {
			s.answerOK(c)
			quiet = 0
			continue
		}
		if len(s.held) > 0 {
			s.flushHeld()
			quiet = 0
			continue
		}
		if s.relayAvail() {
			s.deliver()
			quiet = 0
			continue
		}
		if quiet >= 3 {
			break
		}
		time.Sleep(100 * time.Millisecond)
		quiet++
	}
	synctest.Wait()
	s.feedStates()

	// Where did it end up?
	st, _ := s.state()
	switch {
	case st == stExited && s.exitErr == nil:
		rc.Probe("rescan_returned_at_end_block")
	case st == stExited:
		rc.Probe("rescan_returned_error")
		rc.Probe("exit_" + classifyExit(s.exitErr.Error()))
		rc.Logf("rescan returned: %v", s.exitErr)
	case s.posKnown && s.pos == s.tip():
		rc.Probe("settled_at_chain_tip")
	case s.posKnown:
		rc.Probe("settled_elsewhere")
		rc.Logf("settled at height %d (%s), chain tip is %d (%s)", s.pos.Height, s.pos.Hash.String()[:10], s.tip().Height, s.tip().Hash.String()[:10])
	default:
		rc.Probe("settled_without_callbacks")
	}
	s.shutdown()

	// ---------------------------------------------------------------
	// Oracle.
	if s.modelBug != "" {
		rc.Infra("model miner: %s", s.modelBug)
	}
	start := s.resolveStart(startCopy, endCopy)
	facts := map[string]string{"faults": fmt.Sprint(cfg.faults)}
	w0 := newWatch(s)
	for _, k := range initKeys {
		w0.addKey(k)
	}
	for _, in := range initInputs {
		w0.addInput(in)
	}
	nChecked := 0
	if cfg.handlerMode != 3 {
		nChecked += s.checkWalk("filtered", s.fcb, start, startTime, w0.clone(), facts, func(u *updSpec) int { return u.doneF })
	}
	if cfg.handlerMode >= 2 {
		nChecked += s.checkWalk("legacy", s.lcb, start, startTime, w0.clone(), facts, func(u *updSpec) int { return u.doneL })
	}
	nConn, nDisc := 0, 0
	for _, r := range append(append([]cbRec(nil), s.fcb...), s.lcb...) {
		if r.conn {
			nConn++
		} else {
			nDisc++
		}
	}
	// Digest of everything the caller was told (for determinism comparisons).
	dg := sha256.New()
	for _, seq := range [][]cbRec{s.fcb, s.lcb} {
		for _, r := range seq {
			var txs []string
			for h := range r.txs {
				txs = append(txs, h.String())
			}
			sort.Strings(txs)
			fmt.Fprintf(dg, "%v|%d|%s|%s|%v\n", r.conn, r.height, r.hash, r.via, txs)
		}
		fmt.Fprintln(dg, "--")
	}
	rc.Res.Nontrivial = nConn >= 3 && (nChecked > 0 || nDisc > 0)
	rc.Res.Sample = map[string]any{"initial_chain": cfg.L0, "final_height": len(s.store) - 1, "blocks_in_tree": len(s.tree.ByHash),
		"start_variant": cfg.startVariant, "connects": nConn, "disconnects": nDisc, "relevant_txs_checked": nChecked,
		"updates": len(s.updates), "faults": cfg.faults, "steps": rc.Res.Steps, "odd_spends": cfg.oddSpends,
		"callbacks_digest": hex.EncodeToString(dg.Sum(nil)[:8])}
}

func classifyExit(msg string) string {
	for _, kv := range [][2]string{
		{"unable to rewind past stale block", "catchup_parent_of_stale_block_gone"},
		{"unable to register block subscription", "subscribe_refused"},
		{"sim: filter fetch failed", "filter_fetch_failed_during_catchup"},
		{"sim: block fetch failed", "block_fetch_failed_during_catchup"},
		{"couldn't get header for block", "block_of_stale_block_during_catchup"},
		{"unable to get header for start block", "filter_of_stale_block_during_catchup"},
		{"sim: block header not found", "rewind_parent_gone"},
		{"sim: block height not found", "height_gone_during_catchup"},
		{"unable to retrieve blocks since height", "subscribe_refused_before_start"},
	} {
		if strings.Contains(msg, kv[0]) {
			return kv[1]
		}
	}
	return "other"
}

func (s *sim) answerOK(c *call) {
	v := 0
	switch c.kind {
	case "GetCFilter":
		s.consecFails = 0
		s.mu.Lock()
		b := s.tree.ByHash[c.hash]
		stale := !s.onStore(b)
		s.mu.Unlock()
		if stale {
			// The real service answers from its filter cache/db or, if
			// it has to ask the network, fails to find the header.
			if s.tp.Chance(1, 2) {
				v = 2
				s.rc.Probe("filter_of_stale_block_hash_not_found")
			} else {
				s.rc.Probe("filter_of_stale_block_from_cache")
			}
		}
	case "GetBlock":
		s.consecFails = 0
	case "IsCurrent":
		if !s.isCurAlways && s.notCurLeft > 0 && s.tp.Chance(1, 2) {
			s.notCurLeft--
			s.sawNotCur = true
			v = 1
			s.rc.Probe("chain_not_current_at_start")
		}
	}
	s.rc.Logf("answer %s(%s,%d) -> %d", c.kind, c.hash.String()[:10], c.height, v)
	s.answer(c, v)
}

func (s *sim) stepGrow(step int, cfg runCfg) {
	k := 1 + s.tp.Intn(3)
	if s.tp.Chance(1, 8) {
		k += s.tp.Intn(5)
	}
	hold := cfg.holdOK && s.tp.Chance(1, 3)
	s.rc.Logf("step %d: chain grows by %d (events held back: %v) from height %d", step, k, hold, len(s.store)-1)
	s.grow(k, hold)
}

func (s *sim) stepDisc(step int, cfg runCfg) {
	d := 1
	if s.tp.Chance(1, 3) {
		d += s.tp.Intn(3)
	}
	n := s.disconnect(d)
	s.rc.Logf("step %d: chain loses %d blocks, now at height %d", step, n, len(s.store)-1)
	if n > 0 && s.tp.Chance(1, 2) {
		k := 1 + s.tp.Intn(n+1)
		s.rc.Logf("step %d: ... and grows by %d on the new branch", step, k)
		s.grow(k, false)
	}
}

func (s *sim) stepRelease(step int) {
	n := 1 + s.tp.Intn(len(s.held))
	s.rc.Logf("step %d: %d held-back events reach the subscription manager", step, n)
	for i := 0; i < n; i++ {
		x := s.held[0]
		s.held = s.held[1:]
		s.offer(x)
	}
}

// shutdown ends the rescan and the subscription manager (idempotent).
func (s *sim) shutdown() {
	if s.quitDone {
		return
	}
	s.quitDone = true
	close(s.quit)
	for i := 0; i < 20000; i++ {
		synctest.Wait()
		st, c := s.state()
		if st == stExited {
			break
		}
		if st == stParked {
			s.answer(c, 0)
			continue
		}
		// Idle although quit is closed: give timers a chance, then give up.
		time.Sleep(100 * time.Millisecond)
		if i > 50 {
			break
		}
	}
	done := make(chan struct{})
	go func() { s.mgr.Stop(); close(done) }()
	synctest.Wait()
	if st, _ := s.state(); st == stExited {
		wd := make(chan struct{})
		go func() { s.rescan.WaitForShutdown(); close(wd) }()
		synctest.Wait()
	}
	s.feedStates()
}

// ---------------------------------------------------------------------------
// Oracle.

// resolveStart determines the block the rescan started from, following the
// documented rules (hash first, then height, else genesis; best block if no
// start block was given) on the answers the chain actually gave.
func (s *sim) resolveStart(startOpt, endOpt *headerfs.BlockStamp) *chainmodel.Block {
	i := 0
	next := func(kind string) callRec {
		if i >= len(s.calls) || s.calls[i].kind != kind {
			got := "nothing"
			if i < len(s.calls) {
				got = s.calls[i].kind
			}
			s.rc.Infra("start resolution: expected call %s, got %s (call %d)", kind, got, i)
		}
		r := s.calls[i]
		i++
		return r
	}
	var zero chainhash.Hash
	if endOpt != nil {
		eh, ht := endOpt.Hash, endOpt.Height
		if eh != zero {
			if r := next("HdrByHash"); r.err {
				eh = zero
			}
		}
		if eh == zero && ht != 0 {
			next("HdrByHeight")
		}
	}
	var cur headerfs.BlockStamp
	if startOpt == nil {
		r := next("BestBlock")
		cur = headerfs.BlockStamp{Hash: r.resHash, Height: r.resHeight}
	} else {
		cur = *startOpt
	}
	if cur.Hash != zero {
		if r := next("HdrByHash"); !r.err {
			return s.tree.ByHash[cur.Hash]
		}
	}
	if cur.Height == 0 {
		return s.tree.Genesis
	}
	if r := next("HdrByHeight"); !r.err {
		return s.tree.ByHash[r.resHash]
	}
	return s.tree.Genesis
}

type watch struct {
	s       *sim
	scripts map[string]bool        // scripts of watched addresses
	ops     map[wire.OutPoint]bool // watched outpoints
	derived map[wire.OutPoint]bool // ... of which created earlier in the rescan
	spendSc map[string]bool        // "any spend of this script" (zero outpoint)
	// afterSc: outpoints that came to be watched when a script-only watch
	// was already in the list (for probes only).
	afterSc map[wire.OutPoint]bool
}

func newWatch(s *sim) *watch {
	return &watch{s: s, scripts: map[string]bool{}, ops: map[wire.OutPoint]bool{},
		derived: map[wire.OutPoint]bool{}, spendSc: map[string]bool{}, afterSc: map[wire.OutPoint]bool{}}
}

func (w *watch) clone() *watch {
	c := newWatch(w.s)
	for k := range w.scripts {
		c.scripts[k] = true
	}
	for k := range w.ops {
		c.ops[k] = true
	}
	for k := range w.spendSc {
		c.spendSc[k] = true
	}
	for k := range w.afterSc {
		c.afterSc[k] = true
	}
	return c
}

func (w *watch) addKey(k int) { w.scripts[string(w.s.addrs[k].Script)] = true }

func (w *watch) addOp(op wire.OutPoint) {
	if !w.ops[op] && len(w.spendSc) > 0 {
		w.afterSc[op] = true
	}
	w.ops[op] = true
}

func (w *watch) addInput(in neutrino.InputWithScript) {
	if in.OutPoint == (wire.OutPoint{}) {
		w.spendSc[string(in.PkScript)] = true
	} else {
		w.addOp(in.OutPoint)
	}
}

func descInputs(ins []neutrino.InputWithScript) string {
	var out []string
	for _, in := range ins {
		if in.OutPoint == (wire.OutPoint{}) {
			out = append(out, fmt.Sprintf("script:%x", in.PkScript))
		} else {
			out = append(out, fmt.Sprintf("%s:%d", in.OutPoint.Hash.String()[:10], in.OutPoint.Index))
		}
	}
	return "[" + strings.Join(out, " ") + "]"
}

// checkWalk replays one callback sequence against the model tree. It returns
// the number of relevant transactions it verified to be delivered.
func (s *sim) checkWalk(name string, cbs []cbRec, start *chainmodel.Block, startTime time.Time,
	w *watch, base map[string]string, doneAt func(*updSpec) int) int {

	rc := s.rc
	mk := func(kv ...string) map[string]string {
		f := map[string]string{"handlers": name}
		for k, v := range base {
			f[k] = v
		}
		for i := 0; i+1 < len(kv); i += 2 {
			f[kv[i]] = kv[i+1]
		}
		return f
	}
	pos := start
	applied := map[int]bool{}
	seen := map[chainhash.Hash]int{}
	checked := 0
	short := func(b *chainmodel.Block) string {
		if b == nil {
			return "<nil>"
		}
		return fmt.Sprintf("%d:%s", b.Height, b.Hash.String()[:10])
	}
	for i, cb := range cbs {
		for _, u := range s.updates {
			if d := doneAt(u); d >= 0 && d <= i && !applied[u.id] {
				applied[u.id] = true
				for _, k := range u.keys {
					w.addKey(k)
				}
				for _, in := range u.inputs {
					w.addInput(in)
				}
				// A rewind the caller asked not to be told about:
				// the caller itself moves its notion of the
				// current block back to the rewind height.
				if u.silent && u.rewind > 0 && pos.Height > int32(u.rewind) {
					pos = pos.Ancestor(int32(u.rewind))
					rc.Probe("unreported_rewind_applied")
				}
			}
		}
		blk := s.tree.ByHash[cb.hash]
		if blk == nil {
			rc.Failf("unknown-block", mk("via", cb.via), "%s callback %d (connected=%v, height %d) names block %s which never existed",
				name, i, cb.conn, cb.height, cb.hash)
		}
		if !cb.conn {
			if blk != pos {
				rc.Failf("disconnect-not-current", mk("via", cb.via),
					"%s callback %d disconnects block %s but the block last reported current is %s",
					name, i, short(blk), short(pos))
			}
			if cb.height != blk.Height {
				rc.Failf("wrong-height", mk("kind", "disconnect"), "%s callback %d disconnects block %s with height %d", name, i, short(blk), cb.height)
			}
			if pos.Parent == nil {
				rc.Failf("disconnect-genesis", mk(), "%s callback %d disconnects the genesis block", name, i)
			}
			pos = pos.Parent
			if pos.Height < start.Height {
				rc.Probe("walk_went_below_start_block")
			}
			rc.Probe("disconnect_checked")
			continue
		}
		if blk.Parent != pos {
			rel := "unrelated"
			switch {
			case blk == pos:
				rel = "repeat"
			case blk.Parent != nil && blk.Parent.Height == pos.Height:
				rel = "child-of-sibling"
			case blk.Height > pos.Height+1:
				rel = "skips-ahead"
			case blk.Height <= pos.Height:
				rel = "at-or-below"
			}
			rc.Failf("connect-not-child", mk("via", cb.via, "rel", rel),
				"%s callback %d connects block %s (parent %s) but the block last reported current is %s",
				name, i, short(blk), short(blk.Parent), short(pos))
		}
		if cb.height != blk.Height {
			rc.Failf("wrong-height", mk("kind", "connect"), "%s callback %d connects block %s with height %d", name, i, short(blk), cb.height)
		}
		pos = blk
		seen[blk.Hash]++
		rc.Probe("connect_checked")
		if !blk.Hdr.Timestamp.After(startTime) {
			rc.Probe("connect_before_start_time")
			continue
		}
		for j, tx := range blk.Msg.Transactions {
			why := ""
			th := tx.TxHash()
			// "" if the spent script can be derived from the input.
			form := s.inForm[th]
			input := "ordinary"
			if j > 0 {
				op := tx.TxIn[0].PreviousOutPoint
				switch {
				// A watched outpoint is spent whatever the spending
				// input looks like.
				case w.derived[op]:
					why = "spends-outpoint-created-earlier"
				case w.ops[op]:
					why = "spends-watched-outpoint"
				// A script-only watch can only be honoured when the
				// input reveals which script it spends; nothing is
				// demanded otherwise.
				case form == "" && w.spendSc[string(blk.PrevScripts[j-1])]:
					why = "spends-watched-script"
				case w.spendSc[string(blk.PrevScripts[j-1])]:
					rc.Probe("spend_of_watched_script_not_derivable_nothing_demanded")
				}
				if form != "" {
					input = form
				}
				if form != "" && why != "" {
					rc.Probe("outpoint_spent_by_" + form)
					if w.afterSc[op] {
						rc.Probe("outpoint_watched_after_script_only_watch_spent_by_underivable_input")
					} else if len(w.spendSc) > 0 {
						rc.Probe("outpoint_watched_before_script_only_watch_spent_by_underivable_input")
					}
				}
			}
			var created []wire.OutPoint
			for oi, out := range tx.TxOut {
				if w.scripts[string(out.PkScript)] {
					if why == "" {
						why = "pays-watched-address"
					}
					created = append(created, wire.OutPoint{Hash: th, Index: uint32(oi)})
				}
			}
			if why == "" {
				continue
			}
			if !cb.txs[th] {
				rc.Failf("missed-tx", mk("via", cb.via, "why", why, "filter", cb.filt, "rewalk", fmt.Sprint(seen[blk.Hash] > 1), "input", input),
					"%s callback %d connects block %s without transaction %s (index %d, input: %s) which %s (delivered %d txs)",
					name, i, short(blk), th.String()[:10], j, input, why, len(cb.txs))
			}
			checked++
			rc.Probe("tx_" + why)
			if seen[blk.Hash] > 1 {
				rc.Probe("tx_in_rewalked_block")
			}
			for _, op := range created {
				w.addOp(op)
				w.derived[op] = true
			}
		}
	}
	return checked
}
