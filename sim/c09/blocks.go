package c09

// The engine's own model miner. It builds the same kind of blocks as
// chainmodel.Tree.Extend (coinbase + 0-3 transactions that each spend the
// oldest pooled output and pay two keys; valid witness commitment, merkle root
// and proof of work) and registers them in the chainmodel tree, but it also
// knows outputs and spends that the shared miner does not make:
//
//   - pay-to-pubkey-hash outputs, spent either the ordinary way (signature
//     script "<sig> <pubkey>", from which the spent script can be derived) or
//     with a signature script that is not push-only ("OP_NOP <sig> <pubkey>":
//     non-standard, but nothing in the consensus rules forbids it outside
//     pay-to-script-hash);
//   - bare outputs that need no signature ("<n> OP_DROP OP_1"), spent by an
//     input with neither signature script nor witness, or with the signature
//     script "OP_NOP".
//
// For the last three kinds of input the client cannot derive the script that
// is being spent from the input alone (txscript.ComputePkScript fails): such a
// spend can only be recognised by its outpoint.

import (
	"bytes"
	"encoding/binary"
	"fmt"
	"math/big"
	"time"

	"github.com/btcsuite/btcd/address/v2"
	"github.com/btcsuite/btcd/blockchain"
	"github.com/btcsuite/btcd/btcutil/v2"
	"github.com/btcsuite/btcd/chainhash/v2"
	"github.com/btcsuite/btcd/txscript/v2"
	"github.com/btcsuite/btcd/wire/v2"

	"verif/sim/chainmodel"
)

type outKind int

const (
	kindWPKH outKind = iota // P2WPKH of a model key (what chainmodel makes)
	kindPKH                 // P2PKH of a model key
	kindBare                // bare script that needs no signature
)

// Input forms from which the spent script cannot be derived.
const (
	formNonPushOnly = "non-push-only-sigscript"
	formNoScript    = "no-sigscript-no-witness"
)

// utxo is an unspent output on some branch.
type utxo struct {
	Op     wire.OutPoint
	Script []byte
	Value  int64
	Key    int
	Kind   outKind
}

// addrInfo is an address the caller of the rescan can watch.
type addrInfo struct {
	Addr   address.Address
	Script []byte
}

const nKeys = 6

// initAddrs fills s.addrs: index k < nKeys is the P2WPKH address of model key
// k, index nKeys+k its P2PKH address.
func (s *sim) initAddrs() {
	for _, k := range s.tree.Keys[:nKeys] {
		s.addrs = append(s.addrs, addrInfo{Addr: k.Addr, Script: k.Script})
	}
	for _, k := range s.tree.Keys[:nKeys] {
		a, err := address.NewAddressPubKeyHash(address.Hash160(k.Pub), s.tree.P)
		if err != nil {
			panic(err)
		}
		sc, err := txscript.PayToAddrScript(a)
		if err != nil {
			panic(err)
		}
		s.addrs = append(s.addrs, addrInfo{Addr: a, Script: sc})
	}
}

func (s *sim) scriptFor(kind outKind, key int) []byte {
	switch kind {
	case kindPKH:
		return s.addrs[nKeys+key].Script
	case kindBare:
		return []byte{txscript.OP_DATA_1, byte(key), txscript.OP_DROP, txscript.OP_1}
	}
	return s.addrs[key].Script
}

// drawKind picks how a new output is locked (no draw at all in runs that
// only use the ordinary kind).
func (s *sim) drawKind() outKind {
	if s.pkhW+s.bareW == 0 {
		return kindWPKH
	}
	return outKind(pick(s.tp, 6, s.pkhW, s.bareW))
}

type mineOpts struct {
	Time  time.Time // zero: parent + 10 min (but after the median time past)
	NTx   int
	PayTo int
	Salt  uint32
}

// pool returns the candidate unspent outputs on b's branch.
func (s *sim) pool(b *chainmodel.Block) []utxo { return s.pools[b] }

// extend mines a child of parent and registers it in the model tree.
func (s *sim) extend(parent *chainmodel.Block, o mineOpts) *chainmodel.Block {
	t := s.tree
	chain := parent.Headers()
	ts := o.Time
	if ts.IsZero() {
		ts = parent.Hdr.Timestamp.Add(10 * time.Minute)
	}
	mtp := chainmodel.MedianTimePast(chain)
	ts = time.Unix(ts.Unix(), 0)
	if !ts.After(mtp) {
		ts = mtp.Add(time.Second)
	}
	height := parent.Height + 1

	// Coinbase.
	cbKind := s.drawKind()
	cbKey := o.PayTo % nKeys
	cb := wire.NewMsgTx(2)
	var extra [8]byte
	binary.LittleEndian.PutUint32(extra[0:], uint32(height))
	binary.LittleEndian.PutUint32(extra[4:], o.Salt)
	sigScript, _ := txscript.NewScriptBuilder().AddInt64(int64(height)).AddData(extra[:]).Script()
	cb.AddTxIn(&wire.TxIn{
		PreviousOutPoint: wire.OutPoint{Index: 0xffffffff},
		SignatureScript:  sigScript,
		Sequence:         0xffffffff,
		Witness:          wire.TxWitness{make([]byte, 32)},
	})
	cb.AddTxOut(&wire.TxOut{Value: 50_0000_0000, PkScript: s.scriptFor(cbKind, cbKey)})

	pool := append([]utxo(nil), s.pools[parent]...)
	var txs []*wire.MsgTx
	var prevScripts [][]byte
	var created []utxo
	for i := 0; i < o.NTx && len(pool) > 0; i++ {
		// Spend the oldest pooled output.
		in := pool[0]
		pool = pool[1:]
		if in.Value < 4 {
			i--
			continue
		}
		tx := wire.NewMsgTx(2)
		txin := &wire.TxIn{PreviousOutPoint: in.Op, Sequence: 0xffffffff}
		form := ""
		switch in.Kind {
		case kindWPKH:
			txin.Witness = wire.TxWitness{make([]byte, 71), t.Keys[in.Key].Pub}
		case kindPKH:
			b := txscript.NewScriptBuilder()
			if s.oddN > 0 && s.tp.Chance(s.oddN, 4) {
				b.AddOp(txscript.OP_NOP)
				form = formNonPushOnly
			}
			txin.SignatureScript, _ = b.AddData(make([]byte, 71)).AddData(t.Keys[in.Key].Pub).Script()
		case kindBare:
			if s.tp.Chance(1, 2) {
				txin.SignatureScript = []byte{txscript.OP_NOP}
				form = formNonPushOnly
			} else {
				form = formNoScript
			}
		}
		// The model's belief about what a client can derive from this
		// input, checked against the script library (harness self-check).
		pk, err := txscript.ComputePkScript(txin.SignatureScript, txin.Witness)
		if (form == "") != (err == nil) || (err == nil && !bytes.Equal(pk.Script(), in.Script)) {
			s.modelBug = fmt.Sprintf("input form %q of output kind %d: ComputePkScript gives (%x, %v), spent script %x",
				form, in.Kind, pk.Script(), err, in.Script)
		}
		tx.AddTxIn(txin)
		k1 := (o.PayTo + i + 1) % nKeys
		k2 := (o.PayTo + i + 2) % nKeys
		d1, d2 := s.drawKind(), s.drawKind()
		v := in.Value / 2
		tx.AddTxOut(&wire.TxOut{Value: v, PkScript: s.scriptFor(d1, k1)})
		tx.AddTxOut(&wire.TxOut{Value: in.Value - v, PkScript: s.scriptFor(d2, k2)})
		txs = append(txs, tx)
		prevScripts = append(prevScripts, in.Script)
		h := tx.TxHash()
		if form != "" {
			s.inForm[h] = form
		}
		created = append(created,
			utxo{Op: wire.OutPoint{Hash: h, Index: 0}, Script: s.scriptFor(d1, k1), Value: v, Key: k1, Kind: d1},
			utxo{Op: wire.OutPoint{Hash: h, Index: 1}, Script: s.scriptFor(d2, k2), Value: in.Value - v, Key: k2, Kind: d2},
		)
	}

	// Witness commitment, then the merkle root.
	all := append([]*wire.MsgTx{cb}, txs...)
	utx := make([]*btcutil.Tx, len(all))
	for i, tx := range all {
		utx[i] = btcutil.NewTx(tx)
	}
	wroot := blockchain.CalcMerkleRoot(utx, true)
	var pre [64]byte
	copy(pre[:32], wroot[:])
	commit := chainhash.DoubleHashB(pre[:])
	cscript := append([]byte{txscript.OP_RETURN, txscript.OP_DATA_36, 0xaa, 0x21, 0xa9, 0xed}, commit...)
	cb.AddTxOut(&wire.TxOut{Value: 0, PkScript: cscript})
	for i, tx := range all {
		utx[i] = btcutil.NewTx(tx)
	}
	root := blockchain.CalcMerkleRoot(utx, false)

	pool = append(pool, utxo{Op: wire.OutPoint{Hash: cb.TxHash(), Index: 0}, Script: s.scriptFor(cbKind, cbKey),
		Value: 50_0000_0000, Key: cbKey, Kind: cbKind})
	pool = append(pool, created...)
	const poolCap = 12
	if len(pool) > poolCap {
		pool = pool[len(pool)-poolCap:]
	}

	hdr := wire.BlockHeader{
		Version:    0x20000000,
		PrevBlock:  parent.Hash,
		MerkleRoot: root,
		Timestamp:  ts,
		Bits:       chainmodel.RequiredBits(t.P, chain, ts),
	}
	target := chainmodel.CompactToBig(hdr.Bits)
	for nonce := uint32(0); ; nonce++ {
		hdr.Nonce = nonce
		if chainmodel.HashToBig(hdr.BlockHash()).Cmp(target) <= 0 {
			break
		}
		if nonce == ^uint32(0) {
			hdr.Timestamp = hdr.Timestamp.Add(time.Second)
		}
	}
	msg := &wire.MsgBlock{Header: hdr, Transactions: all}
	b := &chainmodel.Block{Hdr: hdr, Hash: hdr.BlockHash(), Height: height, Parent: parent,
		Msg: msg, PrevScripts: prevScripts}
	b.CumWork = new(big.Int).Add(parent.CumWork, chainmodel.Work(hdr.Bits))
	t.ByHash[b.Hash] = b
	s.pools[b] = pool
	return b
}
