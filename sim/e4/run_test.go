package e4

import (
	"testing"

	"verif/sim/core"
)

func TestRun(t *testing.T) {
	core.Main(t, map[string]core.EngineFunc{"C16": RunC16})
}
