// Package e4 is engine E4 (cachesim): the real lru.Cache driven by two or
// three caller goroutines under a controlled scheduler. Callers are real
// goroutines, but exactly one runs at a time: each parks at the cache's yield
// points (hook H3: after the index lookup and around the locked section) and at
// operation boundaries, and the tape chooses who proceeds. The recorded
// history is checked for linearizability against a sequential LRU (porcupine)
// and the final state against structural invariants.
package e4

import (
	"errors"
	"fmt"
	"sort"
	"strconv"
	"strings"
	"testing"
	"time"

	"github.com/anishathalye/porcupine"
	"github.com/lightninglabs/neutrino/cache/lru"

	"verif/sim/core"
)

// val is a cache value with a unique id. Its Size() starts failing after
// failFrom successful calls (failFrom < 0: never fails).
type val struct {
	id       int
	size     uint64
	failFrom int
	calls    *int
}

var errSize = errors.New("size unavailable")

func (v *val) Size() (uint64, error) {
	if v.failFrom >= 0 && *v.calls >= v.failFrom {
		return 0, errSize
	}
	*v.calls++
	return v.size, nil
}

type opKind int

const (
	kPut opKind = iota
	kGet
	kDel
	kLen
	kSize
	kSnap
)

type opIn struct {
	Kind opKind
	Key  int
	ID   int
	Size uint64
}

type opOut struct {
	Err     bool
	Evicted bool
	Found   bool
	ID      int
	N       uint64
	Snap    string
}

func (i opIn) String() string {
	switch i.Kind {
	case kPut:
		return fmt.Sprintf("put(k%d,v%d,size=%d)", i.Key, i.ID, i.Size)
	case kGet:
		return fmt.Sprintf("get(k%d)", i.Key)
	case kDel:
		return fmt.Sprintf("del(k%d)", i.Key)
	case kLen:
		return "len()"
	case kSize:
		return "size()"
	}
	return "snapshot()"
}

func (o opOut) String() string {
	return fmt.Sprintf("{err=%v evicted=%v found=%v id=%d n=%d snap=%q}", o.Err, o.Evicted, o.Found, o.ID, o.N, o.Snap)
}

// --- sequential reference LRU (state is a string: "cap|k:id:size,..." MRU first)

type ent struct {
	k, id int
	size  uint64
}

func parse(st string) (uint64, []ent) {
	parts := strings.SplitN(st, "|", 2)
	c, _ := strconv.ParseUint(parts[0], 10, 64)
	var es []ent
	if len(parts) > 1 && parts[1] != "" {
		for _, f := range strings.Split(parts[1], ",") {
			var e ent
			fmt.Sscanf(f, "%d:%d:%d", &e.k, &e.id, &e.size)
			es = append(es, e)
		}
	}
	return c, es
}

func ser(c uint64, es []ent) string {
	var sb strings.Builder
	sb.WriteString(strconv.FormatUint(c, 10))
	sb.WriteByte('|')
	for i, e := range es {
		if i > 0 {
			sb.WriteByte(',')
		}
		fmt.Fprintf(&sb, "%d:%d:%d", e.k, e.id, e.size)
	}
	return sb.String()
}

func total(es []ent) uint64 {
	var t uint64
	for _, e := range es {
		t += e.size
	}
	return t
}

func snapOf(es []ent) string {
	// FIFO order: least recently used first.
	var sb strings.Builder
	for i := len(es) - 1; i >= 0; i-- {
		fmt.Fprintf(&sb, "k%d=v%d ", es[i].k, es[i].id)
	}
	return strings.TrimSpace(sb.String())
}

func step(state, input, output interface{}) (bool, interface{}) {
	st := state.(string)
	in := input.(opIn)
	out := output.(opOut)
	c, es := parse(st)
	switch in.Kind {
	case kPut:
		if in.Size > c {
			return out.Err, st
		}
		if out.Err {
			return false, st
		}
		for i, e := range es {
			if e.k == in.Key {
				es = append(es[:i:i], es[i+1:]...)
				break
			}
		}
		ev := false
		for c-total(es) < in.Size {
			es = es[:len(es)-1]
			ev = true
		}
		es = append([]ent{{in.Key, in.ID, in.Size}}, es...)
		return out.Evicted == ev, ser(c, es)
	case kGet:
		for i, e := range es {
			if e.k == in.Key {
				ne := append([]ent{e}, es[:i:i]...)
				ne = append(ne, es[i+1:]...)
				return out.Found && out.ID == e.id, ser(c, ne)
			}
		}
		return !out.Found, st
	case kDel:
		for i, e := range es {
			if e.k == in.Key {
				ne := append(es[:i:i], es[i+1:]...)
				return out.Found && out.ID == e.id, ser(c, ne)
			}
		}
		return !out.Found, st
	case kLen:
		return out.N == uint64(len(es)), st
	case kSize:
		return out.N == total(es), st
	case kSnap:
		return out.Snap == snapOf(es), st
	}
	return false, st
}

// --- controlled scheduler

type gor struct {
	id     int
	ops    []opIn
	vals   []*val
	resume chan struct{}
	done   bool
}

type sched struct {
	events chan bool // true: parked, false: finished
	cur    *gor
	seq    int64
	free   func() bool
}

func (s *sched) yield(site string) {
	// Never park while the cache mutex is held: only one caller runs at a
	// time, so a held mutex is held by the caller that is yielding, and a
	// parked lock holder would block everyone else outside the scheduler's
	// control. Code inside the locked section is therefore atomic, and every
	// index access or hook outside it is an interleaving point wherever the
	// code moves it.
	if site != "op-boundary" && s.free != nil && !s.free() {
		return
	}
	g := s.cur
	s.events <- true
	<-g.resume
}

// RunC16 is the engine function.
func RunC16(t *testing.T, rc *core.RunCtx) {
	tp := rc.Tape
	// Configuration (swarm style).
	nCallers := 1 + tp.Intn(3) // 1..3
	failing := tp.Chance(1, 4) // configuration B: values whose Size() fails
	capacity := uint64(2 + tp.Intn(9))
	nKeys := 1 + tp.Intn(4)
	maxOps := 4
	if nCallers == 1 {
		maxOps = 14
	}
	if rc.Tier == "thorough" && nCallers > 1 {
		maxOps = 5
	}
	// One run in two: the cache has a delete callback. It is one more hook
	// at which the scheduler may switch callers, if the cache mutex is not
	// held there (on the unchanged tree it is, so the callback is atomic
	// with the eviction that triggered it).
	s := &sched{events: make(chan bool)}
	var opts []lru.CacheOption[int, *val]
	withCB := tp.Chance(1, 2)
	if withCB {
		opts = append(opts, lru.WithDeleteCallback[int, *val](func(int, *val) {
			s.yield("delete-callback")
		}))
	}
	c := lru.NewCache[int, *val](capacity, opts...)
	s.free = c.VerifTryLock
	nextID := 1
	var gs []*gor
	for gi := 0; gi < nCallers; gi++ {
		g := &gor{id: gi, resume: make(chan struct{})}
		n := 1 + tp.Intn(maxOps)
		for i := 0; i < n; i++ {
			w := tp.Intn(100)
			in := opIn{Key: tp.Intn(nKeys)}
			var v *val
			switch {
			case w < 45:
				in.Kind = kPut
				in.ID = nextID
				nextID++
				in.Size = uint64(1 + tp.Intn(int(capacity)))
				if tp.Chance(1, 12) {
					in.Size = capacity + 1 + uint64(tp.Intn(3)) // too big
				}
				v = &val{id: in.ID, size: in.Size, failFrom: -1, calls: new(int)}
				if failing && tp.Chance(1, 3) {
					v.failFrom = tp.Intn(3) // 0: fails at put; 1,2: fails later when resident
				}
			case w < 70:
				in.Kind = kGet
			case w < 85:
				in.Kind = kDel
			case w < 93:
				in.Kind = kLen
			default:
				in.Kind = kSize
			}
			g.ops = append(g.ops, in)
			g.vals = append(g.vals, v)
		}
		gs = append(gs, g)
	}
	rc.Logf("config callers=%d capacity=%d keys=%d failing-sizes=%v", nCallers, capacity, nKeys, failing)

	lru.VerifYield = s.yield
	defer func() { lru.VerifYield = nil }()

	type rec struct {
		g        int
		in       opIn
		out      opOut
		call     int64
		ret      int64
		finished bool
	}
	var hist []*rec
	for _, g := range gs {
		g := g
		go func() {
			<-g.resume
			for i, in := range g.ops {
				r := &rec{g: g.id, in: in, call: s.seq * 2}
				hist = append(hist, r)
				switch in.Kind {
				case kPut:
					ev, err := c.Put(in.Key, g.vals[i])
					r.out = opOut{Err: err != nil, Evicted: ev}
				case kGet:
					v, err := c.Get(in.Key)
					if err == nil && v != nil {
						r.out = opOut{Found: true, ID: v.id}
					}
				case kDel:
					v, ok := c.LoadAndDelete(in.Key)
					if ok && v != nil {
						r.out = opOut{Found: true, ID: v.id}
					}
				case kLen:
					r.out = opOut{N: uint64(c.Len())}
				case kSize:
					r.out = opOut{N: c.Size()}
				}
				r.ret = s.seq*2 + 1
				r.finished = true
				if i < len(g.ops)-1 {
					s.yield("op-boundary")
				}
			}
			s.events <- false
		}()
	}

	// Scheduling loop: one goroutine runs at a time.
	var schedule []int
	yields := 0
	for {
		var runnable []*gor
		for _, g := range gs {
			if !g.done {
				runnable = append(runnable, g)
			}
		}
		if len(runnable) == 0 {
			break
		}
		// Nobody is running now and nobody parks while holding the
		// mutex, so it must be free.
		if !c.VerifTryLock() {
			last := "?"
			for i := len(hist) - 1; i >= 0; i-- {
				if hist[i].finished {
					last = hist[i].in.String() + " -> " + hist[i].out.String()
					break
				}
			}
			rc.Failf("mutex-held-after-operation", map[string]string{"failing_sizes": fmt.Sprint(failing)},
				"cache mutex is held while no operation is running (cache unusable); last finished op: %s", last)
		}
		g := runnable[tp.Intn(len(runnable))]
		schedule = append(schedule, g.id)
		s.cur = g
		s.seq++
		g.resume <- struct{}{}
		select {
		case parked := <-s.events:
			if !parked {
				g.done = true
			} else {
				yields++
			}
		case <-time.After(20 * time.Second):
			rc.Infra("caller %d did not park or finish within 20s real time (schedule %v)", g.id, schedule)
		}
	}
	rc.Res.Steps = len(schedule)
	for _, r := range hist {
		rc.Logf("caller %d: %s -> %s [%d,%d]", r.g, r.in, r.out, r.call, r.ret)
	}
	rc.Logf("schedule %v", schedule)
	if !c.VerifTryLock() {
		rc.Failf("mutex-held-after-operation", map[string]string{"failing_sizes": fmt.Sprint(failing)},
			"cache mutex is held after all operations finished (cache unusable)")
	}

	// Final structural invariants.
	var listKeys []int
	var listSum uint64
	var snap []string
	sizeUnknown := false
	c.RangeFIFO(func(k int, v *val) bool {
		listKeys = append(listKeys, k)
		listSum += v.size
		if v.failFrom >= 0 {
			sizeUnknown = true
		}
		snap = append(snap, fmt.Sprintf("k%d=v%d", k, v.id))
		return true
	})
	idx := map[int]int{}
	c.Range(func(k int, v *val) bool { idx[k] = v.id; return true })
	gotLen, gotSize := c.Len(), c.Size()
	facts := map[string]string{"callers": fmt.Sprint(min(nCallers, 2)), "failing_sizes": fmt.Sprint(failing)}
	if gotSize > capacity {
		rc.Failf("size-exceeds-capacity", facts, "Size()=%d exceeds capacity %d (entries %v)", gotSize, capacity, snap)
	}
	if !failing {
		if listSum > capacity {
			rc.Failf("resident-exceeds-capacity", facts, "resident entries total %d > capacity %d (%v)", listSum, capacity, snap)
		}
		seen := map[int]bool{}
		for _, k := range listKeys {
			if seen[k] {
				rc.Failf("duplicate-key-resident", facts, "key k%d is resident twice: %v (index %v)", k, snap, idx)
			}
			seen[k] = true
		}
		if gotLen != len(listKeys) || gotLen != len(idx) {
			rc.Failf("len-disagrees", facts, "Len()=%d, list has %d entries, index has %d (%v / %v)", gotLen, len(listKeys), len(idx), snap, idx)
		}
		if gotSize != listSum {
			rc.Failf("size-disagrees", facts, "Size()=%d but resident entries total %d (%v)", gotSize, listSum, snap)
		}
		for _, k := range listKeys {
			if _, ok := idx[k]; !ok {
				rc.Failf("len-disagrees", facts, "resident key k%d is not in the index (%v / %v)", k, snap, idx)
			}
		}
	} else {
		_ = sizeUnknown
		// Length and index agreement do not depend on any size being
		// computable: they must hold after failed operations as well.
		seen := map[int]bool{}
		for _, k := range listKeys {
			if seen[k] {
				rc.Failf("duplicate-key-resident", facts, "key k%d is resident twice: %v (index %v)", k, snap, idx)
			}
			seen[k] = true
			if _, ok := idx[k]; !ok {
				rc.Failf("len-disagrees", facts, "resident key k%d is not in the index (%v / %v)", k, snap, idx)
			}
		}
		if gotLen != len(listKeys) || gotLen != len(idx) {
			rc.Failf("len-disagrees", facts, "Len()=%d, list has %d entries, index has %d (%v / %v)", gotLen, len(listKeys), len(idx), snap, idx)
		}
		// Configuration B: "an operation that fails leaves the cache
		// usable": a fresh small value can be stored and read back.
		fresh := &val{id: 999999, size: 1, failFrom: -1, calls: new(int)}
		doneCh := make(chan error, 1)
		go func() {
			lru.VerifYield = nil
			_, err := c.Put(9999, fresh)
			if err == nil {
				var v *val
				v, err = c.Get(9999)
				if err == nil && v != fresh {
					err = fmt.Errorf("read back a different value")
				}
			}
			doneCh <- err
		}()
		select {
		case err := <-doneCh:
			// A put may legitimately fail if eviction meets a value
			// whose size cannot be computed; it must not hang.
			if err != nil {
				rc.Probe("fresh_put_failed_after_size_errors")
			}
		case <-time.After(10 * time.Second):
			rc.Failf("cache-unusable-after-failure", facts, "Put/Get of a fresh key blocks after operations that failed")
		}
	}

	// Linearizability (configuration A only: with failing sizes the
	// sequential semantics of a failed operation are not specified).
	if !failing {
		ops := make([]porcupine.Operation, 0, len(hist)+1)
		for _, r := range hist {
			ops = append(ops, porcupine.Operation{ClientId: r.g, Input: r.in, Output: r.out, Call: r.call, Return: r.ret})
		}
		end := (s.seq + 1) * 2
		ops = append(ops, porcupine.Operation{ClientId: nCallers, Input: opIn{Kind: kSnap},
			Output: opOut{Snap: strings.Join(snap, " ")}, Call: end, Return: end + 1})
		model := porcupine.Model{
			Init: func() interface{} { return ser(capacity, nil) },
			Step: step,
		}
		res := porcupine.CheckOperationsTimeout(model, ops, 20*time.Second)
		switch res {
		case porcupine.Illegal:
			var lines []string
			for _, r := range hist {
				lines = append(lines, fmt.Sprintf("c%d %s->%s[%d,%d]", r.g, r.in, r.out, r.call, r.ret))
			}
			clause := "not-linearizable"
			if nCallers == 1 {
				clause = "sequential-semantics-wrong"
			}
			rc.Failf(clause, facts, "history has no sequential LRU explanation (capacity %d): %s ; final %v",
				capacity, strings.Join(lines, " | "), snap)
		case porcupine.Unknown:
			rc.Probe("porcupine_timeout_inconclusive")
		}
	}
	rc.State(fmt.Sprintf("callers=%d|fail=%v|yields=%s|ops=%s", nCallers, failing, bucketN(yields), bucketN(len(hist))))
	// Fingerprint: the schedule itself plus op kinds.
	var sb strings.Builder
	for _, r := range hist {
		fmt.Fprintf(&sb, "%d%d%d;", r.g, r.in.Kind, r.in.Key)
	}
	fmt.Fprintf(&sb, "%v", schedule)
	rc.State("h:" + sb.String())
	rc.Res.Nontrivial = len(hist) >= 2 && (nCallers == 1 || yields > 0)
	keys := make([]string, 0, len(hist))
	for _, r := range hist {
		keys = append(keys, fmt.Sprintf("c%d:%s", r.g, r.in))
	}
	sort.Strings(keys)
	rc.Res.Sample = map[string]any{"callers": nCallers, "capacity": capacity, "ops": keys, "schedule": schedule, "failing_sizes": failing}
	if nCallers > 1 {
		rc.Fault("interleaving-points")
		rc.Res.Faults["interleaving-points"] += yields - 1
	}
}

func bucketN(n int) string {
	switch {
	case n <= 1:
		return fmt.Sprint(n)
	case n <= 4:
		return "2-4"
	case n <= 8:
		return "5-8"
	}
	return "9+"
}

func min(a, b int) int {
	if a < b {
		return a
	}
	return b
}
