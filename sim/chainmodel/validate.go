package chainmodel

import (
	"fmt"
	"time"

	"github.com/btcsuite/btcd/chaincfg/v2"
	"github.com/btcsuite/btcd/wire/v2"
)

// RuleError names the consensus rule a header breaks.
type RuleError struct {
	Height int
	Rule   string
	Detail string
}

func (e *RuleError) Error() string {
	return fmt.Sprintf("height %d breaks %s: %s", e.Height, e.Rule, e.Detail)
}

// MaxFutureDrift is the consensus future-time limit.
const MaxFutureDrift = 2 * time.Hour

// ValidateNext checks header as the successor of chain (headers from genesis,
// index == height). now is the latest moment the client could have considered
// "now" when it accepted the header (zero disables the future-time rule).
func ValidateNext(p *chaincfg.Params, chain []wire.BlockHeader, h *wire.BlockHeader, now time.Time) *RuleError {
	height := len(chain)
	prev := chain[height-1]
	if h.PrevBlock != prev.BlockHash() {
		return &RuleError{height, "linkage", fmt.Sprintf("prev=%v want %v", h.PrevBlock, prev.BlockHash())}
	}
	want := RequiredBits(p, chain, h.Timestamp)
	if h.Bits != want {
		return &RuleError{height, "bits", fmt.Sprintf("bits=%08x want %08x", h.Bits, want)}
	}
	target := CompactToBig(h.Bits)
	if target.Sign() <= 0 || target.Cmp(p.PowLimit) > 0 {
		return &RuleError{height, "pow-range", fmt.Sprintf("bits=%08x", h.Bits)}
	}
	if HashToBig(h.BlockHash()).Cmp(target) > 0 {
		return &RuleError{height, "pow", fmt.Sprintf("hash %v above target %08x", h.BlockHash(), h.Bits)}
	}
	if mtp := MedianTimePast(chain); !h.Timestamp.After(mtp) {
		return &RuleError{height, "median-time", fmt.Sprintf("ts=%d mtp=%d", h.Timestamp.Unix(), mtp.Unix())}
	}
	if !now.IsZero() && h.Timestamp.After(now.Add(MaxFutureDrift)) {
		return &RuleError{height, "future-time", fmt.Sprintf("ts=%d now=%d", h.Timestamp.Unix(), now.Unix())}
	}
	hh := int32(height)
	if h.Version < 2 && hh >= p.BIP0034Height || h.Version < 3 && hh >= p.BIP0066Height ||
		h.Version < 4 && hh >= p.BIP0065Height {
		return &RuleError{height, "version", fmt.Sprintf("version=%d", h.Version)}
	}
	for _, cp := range p.Checkpoints {
		if cp.Height == hh && *cp.Hash != h.BlockHash() {
			return &RuleError{height, "checkpoint", fmt.Sprintf("hash=%v want %v", h.BlockHash(), cp.Hash)}
		}
	}
	return nil
}

// ValidateChain checks a whole chain from genesis.
func ValidateChain(p *chaincfg.Params, chain []wire.BlockHeader, now time.Time) *RuleError {
	if len(chain) == 0 {
		return &RuleError{0, "empty", ""}
	}
	if chain[0].BlockHash() != *p.GenesisHash {
		return &RuleError{0, "genesis", fmt.Sprintf("hash=%v", chain[0].BlockHash())}
	}
	for i := 1; i < len(chain); i++ {
		if e := ValidateNext(p, chain[:i], &chain[i], now); e != nil {
			return e
		}
	}
	return nil
}
