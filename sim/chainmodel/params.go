// Package chainmodel is the simulator's ground truth: generated chain
// parameters, a deterministic miner that builds a tree of blocks (valid, or
// invalid in exactly one declared rule), BIP157/158 filters for them, and an
// independent header validator written from the consensus rules.
package chainmodel

import (
	"math/big"
	"time"

	"github.com/btcsuite/btcd/chaincfg/v2"
	"github.com/btcsuite/btcd/wire/v2"
)

// ParamOpts are the knobs a run draws from its tape.
type ParamOpts struct {
	// RetargetInterval in blocks; 0 means "no retargeting" (regtest rule).
	RetargetInterval int
	// ReduceMinDifficulty enables the testnet min-difficulty rule.
	ReduceMinDifficulty bool
	// VersionFloor, if > 0, is the height from which header version >= 4 is
	// required (BIP34/65/66 heights are set to it).
	VersionFloor int32
}

// NewParams derives chain parameters from regtest: same genesis and
// proof-of-work limit (about two hash attempts per header), but with the
// retarget machinery switched on and shortened so that it is exercised in
// chains of tens of blocks.
func NewParams(o ParamOpts) *chaincfg.Params {
	p := chaincfg.RegressionNetParams // copy
	p.Name = "verifsim"
	p.Checkpoints = nil
	p.DNSSeeds = nil
	p.TargetTimePerBlock = 10 * time.Minute
	p.RetargetAdjustmentFactor = 4
	if o.RetargetInterval > 0 {
		p.PoWNoRetargeting = false
		p.TargetTimespan = time.Duration(o.RetargetInterval) * p.TargetTimePerBlock
	} else {
		p.PoWNoRetargeting = true
		p.TargetTimespan = 14 * 24 * time.Hour
	}
	p.ReduceMinDifficulty = o.ReduceMinDifficulty
	p.MinDiffReductionTime = 20 * time.Minute
	p.EnforceBIP94 = false
	if o.VersionFloor > 0 {
		p.BIP0034Height = o.VersionFloor
		p.BIP0065Height = o.VersionFloor
		p.BIP0066Height = o.VersionFloor
	} else {
		p.BIP0034Height = 100000000
		p.BIP0065Height = 100000000
		p.BIP0066Height = 100000000
	}
	return &p
}

// BlocksPerRetarget mirrors how the parameters define the interval.
func BlocksPerRetarget(p *chaincfg.Params) int32 {
	return int32(int64(p.TargetTimespan/time.Second) / int64(p.TargetTimePerBlock/time.Second))
}

// CompactToBig converts the compact "bits" form to a target (written here from
// the format's definition rather than imported, to keep the oracle
// independent).
func CompactToBig(compact uint32) *big.Int {
	mantissa := compact & 0x007fffff
	isNegative := compact&0x00800000 != 0
	exponent := uint(compact >> 24)
	var bn *big.Int
	if exponent <= 3 {
		mantissa >>= 8 * (3 - exponent)
		bn = big.NewInt(int64(mantissa))
	} else {
		bn = big.NewInt(int64(mantissa))
		bn.Lsh(bn, 8*(exponent-3))
	}
	if isNegative {
		bn = bn.Neg(bn)
	}
	return bn
}

// BigToCompact is the inverse.
func BigToCompact(n *big.Int) uint32 {
	if n.Sign() == 0 {
		return 0
	}
	var mantissa uint32
	exponent := uint(len(n.Bytes()))
	if exponent <= 3 {
		mantissa = uint32(n.Bits()[0])
		mantissa <<= 8 * (3 - exponent)
	} else {
		tn := new(big.Int).Set(n)
		mantissa = uint32(tn.Rsh(tn, 8*(exponent-3)).Bits()[0])
	}
	if mantissa&0x00800000 != 0 {
		mantissa >>= 8
		exponent++
	}
	compact := uint32(exponent<<24) | mantissa
	if n.Sign() < 0 {
		compact |= 0x00800000
	}
	return compact
}

var oneLsh256 = new(big.Int).Lsh(big.NewInt(1), 256)

// Work is the expected number of hashes a header with these bits represents.
func Work(bits uint32) *big.Int {
	t := CompactToBig(bits)
	if t.Sign() <= 0 {
		return big.NewInt(0)
	}
	d := new(big.Int).Add(t, big.NewInt(1))
	return new(big.Int).Div(oneLsh256, d)
}

// HashToBig interprets a block hash as the little-endian number the
// proof-of-work rule compares with the target.
func HashToBig(h [32]byte) *big.Int {
	var b [32]byte
	for i := 0; i < 32; i++ {
		b[i] = h[31-i]
	}
	return new(big.Int).SetBytes(b[:])
}

// RequiredBits computes the difficulty bits the header following prev must
// carry. chain is the full header list from genesis through prev (index ==
// height); ts is the new header's timestamp.
func RequiredBits(p *chaincfg.Params, chain []wire.BlockHeader, ts time.Time) uint32 {
	return requiredBits(p, chain, ts, true)
}

// UnclampedBits is what RequiredBits would be if the actual timespan of the
// closing retarget period were not limited to [span/4, span*4]: the bits a
// client that forgot (or mis-sized) the limits would expect. It differs from
// RequiredBits only at a retarget boundary whose period ran more than four
// times too fast or too slow.
func UnclampedBits(p *chaincfg.Params, chain []wire.BlockHeader, ts time.Time) uint32 {
	return requiredBits(p, chain, ts, false)
}

func requiredBits(p *chaincfg.Params, chain []wire.BlockHeader, ts time.Time, clamp bool) uint32 {
	if p.PoWNoRetargeting {
		return p.PowLimitBits
	}
	prevH := int32(len(chain) - 1)
	prev := chain[prevH]
	bpr := BlocksPerRetarget(p)
	if (prevH+1)%bpr != 0 {
		if p.ReduceMinDifficulty {
			allow := prev.Timestamp.Unix() + int64(p.MinDiffReductionTime/time.Second)
			if ts.Unix() > allow {
				return p.PowLimitBits
			}
			// Walk back to the last block that did not use the
			// special rule.
			h := prevH
			for h > 0 && h%bpr != 0 && chain[h].Bits == p.PowLimitBits {
				h--
			}
			return chain[h].Bits
		}
		return prev.Bits
	}
	first := chain[prevH-(bpr-1)]
	actual := prev.Timestamp.Unix() - first.Timestamp.Unix()
	span := int64(p.TargetTimespan / time.Second)
	minSpan := span / p.RetargetAdjustmentFactor
	maxSpan := span * p.RetargetAdjustmentFactor
	if clamp {
		if actual < minSpan {
			actual = minSpan
		} else if actual > maxSpan {
			actual = maxSpan
		}
	} else if actual < 1 {
		actual = 1
	}
	old := CompactToBig(prev.Bits)
	if p.EnforceBIP94 {
		old = CompactToBig(first.Bits)
	}
	nt := new(big.Int).Mul(old, big.NewInt(actual))
	nt.Div(nt, big.NewInt(span))
	if nt.Cmp(p.PowLimit) > 0 {
		nt.Set(p.PowLimit)
	}
	return BigToCompact(nt)
}

// MedianTimePast of the (up to) 11 headers ending at chain's last entry.
func MedianTimePast(chain []wire.BlockHeader) time.Time {
	n := len(chain)
	k := 11
	if n < k {
		k = n
	}
	ts := make([]int64, 0, k)
	for i := 0; i < k; i++ {
		ts = append(ts, chain[n-1-i].Timestamp.Unix())
	}
	// insertion sort
	for i := 1; i < len(ts); i++ {
		for j := i; j > 0 && ts[j-1] > ts[j]; j-- {
			ts[j-1], ts[j] = ts[j], ts[j-1]
		}
	}
	return time.Unix(ts[len(ts)/2], 0)
}
