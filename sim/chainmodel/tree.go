package chainmodel

import (
	"crypto/sha256"
	"encoding/binary"
	"fmt"
	"math/big"
	"time"

	"github.com/btcsuite/btcd/address/v2"
	"github.com/btcsuite/btcd/blockchain"
	"github.com/btcsuite/btcd/btcec/v2"
	"github.com/btcsuite/btcd/btcutil/v2"
	"github.com/btcsuite/btcd/btcutil/v2/gcs"
	"github.com/btcsuite/btcd/btcutil/v2/gcs/builder"
	"github.com/btcsuite/btcd/chaincfg/v2"
	"github.com/btcsuite/btcd/chainhash/v2"
	"github.com/btcsuite/btcd/txscript/v2"
	"github.com/btcsuite/btcd/wire/v2"
)

// Key is one of the model's few "wallet" keys; outputs pay to its P2WPKH
// script so that spends carry a witness from which the spent script can be
// derived (which is what the client's filter verification relies on).
type Key struct {
	Pub    []byte
	Script []byte
	Addr   address.Address
}

// UTXO is an unspent output on some branch.
type UTXO struct {
	Op     wire.OutPoint
	Script []byte
	Value  int64
	KeyIdx int
	Height int32
}

// Block is a node of the model tree.
type Block struct {
	Hdr     wire.BlockHeader
	Hash    chainhash.Hash
	Height  int32
	Parent  *Block
	CumWork *big.Int
	Msg     *wire.MsgBlock
	// PrevScripts are the scripts spent by the non-coinbase inputs, in order.
	PrevScripts [][]byte
	// Broken names the single consensus rule this header breaks ("" if none).
	Broken string
	// Tainted is true if this block or an ancestor is Broken.
	Tainted bool

	pool []UTXO

	filter     *gcs.Filter
	filterHash chainhash.Hash
	filterHdr  chainhash.Hash
	haveFilter bool
}

// Tree is the model block tree.
type Tree struct {
	P       *chaincfg.Params
	Genesis *Block
	ByHash  map[chainhash.Hash]*Block
	// lastTip/lastChain: the block mined last and the headers up to it.
	lastTip   *Block
	lastChain []wire.BlockHeader
	Keys      []Key
	salt      uint64
}

// NewTree creates a tree holding only the genesis block of p.
func NewTree(p *chaincfg.Params) *Tree {
	t := &Tree{P: p, ByHash: map[chainhash.Hash]*Block{}}
	for i := 0; i < 6; i++ {
		seed := sha256.Sum256([]byte(fmt.Sprintf("verif-key-%d", i)))
		_, pub := btcec.PrivKeyFromBytes(seed[:])
		pk := pub.SerializeCompressed()
		addr, err := address.NewAddressWitnessPubKeyHash(address.Hash160(pk), p)
		if err != nil {
			panic(err)
		}
		script, err := txscript.PayToAddrScript(addr)
		if err != nil {
			panic(err)
		}
		t.Keys = append(t.Keys, Key{Pub: pk, Script: script, Addr: addr})
	}
	g := &Block{Hdr: p.GenesisBlock.Header, Hash: *p.GenesisHash, Height: 0,
		CumWork: Work(p.GenesisBlock.Header.Bits), Msg: p.GenesisBlock}
	t.Genesis = g
	t.ByHash[g.Hash] = g
	return t
}

// MineOpts control one mined block.
type MineOpts struct {
	// Time is the header timestamp; zero means parent + 10 min (but after MTP).
	Time time.Time
	// NTx is the number of non-coinbase transactions.
	NTx int
	// PayTo selects the key index receiving the coinbase (and tx outputs).
	PayTo int
	// Break makes the header invalid in exactly one rule: "pow", "bits",
	// "median-time", "version", or "future-time" (Time is then used as
	// given and must be far beyond any moment the run reaches).
	Break string
	// Salt distinguishes siblings that would otherwise be identical.
	Salt uint32
	// OpReturn adds an OP_RETURN output to the first non-coinbase tx.
	OpReturn bool
	// OddScript adds to the first non-coinbase tx an output whose script
	// does not parse (a push running past the end of the script). Such an
	// output is unusual but legal, is not an OP_RETURN output, and BIP158
	// filters contain its script.
	OddScript bool
}

// DifficultyRunaway is the panic value of the model miner when a scenario has
// made blocks so fast for so many retarget periods that the next block would
// be too expensive to mine. It says something about the scenario, nothing about
// the code under test: engines may end such a run without a verdict.
type DifficultyRunaway string

func (d DifficultyRunaway) Error() string { return string(d) }

// OddScript returns the unparseable output script used for MineOpts.OddScript
// (salted so that blocks differ).
func OddScript(height int32, salt uint32) []byte {
	return []byte{0x4c, 0x40, byte(height), byte(salt), byte(salt >> 8), 0x51}
}

// IsOddScript recognises the scripts OddScript makes.
func IsOddScript(s []byte) bool {
	return len(s) == 6 && s[0] == 0x4c && s[1] == 0x40
}

// Headers returns the headers from genesis to b (index == height).
func (b *Block) Headers() []wire.BlockHeader {
	out := make([]wire.BlockHeader, b.Height+1)
	for n := b; n != nil; n = n.Parent {
		out[n.Height] = n.Hdr
	}
	return out
}

// Chain returns the blocks from genesis to b.
func (b *Block) Chain() []*Block {
	out := make([]*Block, b.Height+1)
	for n := b; n != nil; n = n.Parent {
		out[n.Height] = n
	}
	return out
}

// Ancestor returns b's ancestor at height h (nil if out of range).
func (b *Block) Ancestor(h int32) *Block {
	if h < 0 || h > b.Height {
		return nil
	}
	n := b
	for n.Height > h {
		n = n.Parent
	}
	return n
}

// IsAncestorOf reports whether b is on the chain ending at tip.
func (b *Block) IsAncestorOf(tip *Block) bool {
	return tip.Ancestor(b.Height) == b
}

// ForkPoint returns the last common block of the chains ending at a and b.
func ForkPoint(a, b *Block) *Block {
	for a.Height > b.Height {
		a = a.Parent
	}
	for b.Height > a.Height {
		b = b.Parent
	}
	for a != b {
		a, b = a.Parent, b.Parent
	}
	return a
}

// Extend mines a child of parent.
func (t *Tree) Extend(parent *Block, o MineOpts) *Block {
	// (mining a long chain block by block: the parent's header list is the
	// one built for the previous call, plus that call's header)
	var chain []wire.BlockHeader
	if t.lastTip == parent && t.lastChain != nil {
		chain = t.lastChain
	} else {
		chain = parent.Headers()
	}
	ts := o.Time
	if ts.IsZero() {
		ts = parent.Hdr.Timestamp.Add(10 * time.Minute)
	}
	mtp := MedianTimePast(chain)
	ts = time.Unix(ts.Unix(), 0) // header timestamps have one-second resolution
	if o.Break == "median-time" {
		ts = mtp
	} else if !ts.After(mtp) {
		ts = mtp.Add(time.Second)
	}

	height := parent.Height + 1
	t.salt++
	msg := t.buildBlock(parent, height, o)
	hdr := wire.BlockHeader{
		Version:    0x20000000,
		PrevBlock:  parent.Hash,
		MerkleRoot: msg.merkle,
		Timestamp:  ts,
		Bits:       RequiredBits(t.P, chain, ts),
	}
	switch o.Break {
	case "version":
		hdr.Version = 1
	case "bits-noclamp":
		// The difficulty a client without the retarget limits would
		// expect; where the limits do not bite, fall back to "bits".
		if ub := UnclampedBits(t.P, chain, ts); ub != hdr.Bits && CompactToBig(ub).Sign() > 0 &&
			CompactToBig(ub).Cmp(t.P.PowLimit) <= 0 && Work(ub).BitLen() <= 20 {
			hdr.Bits = ub
		} else {
			hdr.Bits = hdr.Bits - 1
		}
		o.Break = "bits"
	case "bits":
		// An easier-or-equal-looking but wrong target: flip a low
		// mantissa bit so the value differs from the required one while
		// staying within the proof-of-work limit.
		hdr.Bits = hdr.Bits - 1
	}
	target := CompactToBig(hdr.Bits)
	if w := Work(hdr.Bits); w.BitLen() > 18 {
		panic(DifficultyRunaway(fmt.Sprintf("chainmodel: block at height %d would cost about 2^%d hashes to mine (bits %08x): the scenario let the difficulty run away", height, w.BitLen(), hdr.Bits)))
	}
	for nonce := uint32(0); ; nonce++ {
		hdr.Nonce = nonce
		ok := HashToBig(hdr.BlockHash()).Cmp(target) <= 0
		if o.Break == "pow" {
			if !ok {
				break
			}
			continue
		}
		if ok {
			break
		}
		if nonce == ^uint32(0) {
			hdr.Timestamp = hdr.Timestamp.Add(time.Second)
		}
	}
	msg.block.Header = hdr
	b := &Block{Hdr: hdr, Hash: hdr.BlockHash(), Height: height, Parent: parent,
		Msg: msg.block, PrevScripts: msg.prevScripts, pool: msg.pool,
		Broken: o.Break, Tainted: parent.Tainted || o.Break != ""}
	b.CumWork = new(big.Int).Add(parent.CumWork, Work(hdr.Bits))
	t.ByHash[b.Hash] = b
	t.lastTip, t.lastChain = b, append(chain, hdr)
	return b
}

type builtBlock struct {
	block       *wire.MsgBlock
	merkle      chainhash.Hash
	prevScripts [][]byte
	pool        []UTXO
}

const poolCap = 12

func (t *Tree) buildBlock(parent *Block, height int32, o MineOpts) builtBlock {
	key := t.Keys[o.PayTo%len(t.Keys)]
	// Coinbase.
	cb := wire.NewMsgTx(2)
	var extra [12]byte
	binary.LittleEndian.PutUint32(extra[0:], uint32(height))
	binary.LittleEndian.PutUint32(extra[4:], o.Salt)
	binary.LittleEndian.PutUint32(extra[8:], uint32(t.salt))
	sigScript, _ := txscript.NewScriptBuilder().AddInt64(int64(height)).AddData(extra[:]).Script()
	cb.AddTxIn(&wire.TxIn{
		PreviousOutPoint: wire.OutPoint{Index: 0xffffffff},
		SignatureScript:  sigScript,
		Sequence:         0xffffffff,
		Witness:          wire.TxWitness{make([]byte, 32)},
	})
	cb.AddTxOut(&wire.TxOut{Value: 50_0000_0000, PkScript: key.Script})

	pool := append([]UTXO(nil), parent.pool...)
	var txs []*wire.MsgTx
	var prevScripts [][]byte
	var created []UTXO
	for i := 0; i < o.NTx && len(pool) > 0; i++ {
		// Spend the oldest pooled output (deterministic).
		in := pool[0]
		pool = pool[1:]
		if in.Value < 4 {
			i--
			continue
		}
		tx := wire.NewMsgTx(2)
		tx.AddTxIn(&wire.TxIn{
			PreviousOutPoint: in.Op,
			Sequence:         0xffffffff,
			Witness:          wire.TxWitness{make([]byte, 71), t.Keys[in.KeyIdx].Pub},
		})
		// Two outputs to different keys so "several outputs of one tx" exists.
		k1 := (o.PayTo + i + 1) % len(t.Keys)
		k2 := (o.PayTo + i + 2) % len(t.Keys)
		v := in.Value / 2
		tx.AddTxOut(&wire.TxOut{Value: v, PkScript: t.Keys[k1].Script})
		tx.AddTxOut(&wire.TxOut{Value: in.Value - v, PkScript: t.Keys[k2].Script})
		if o.OpReturn && i == 0 {
			data, _ := txscript.NullDataScript([]byte(fmt.Sprintf("verif-%d-%d", height, o.Salt)))
			tx.AddTxOut(&wire.TxOut{Value: 0, PkScript: data})
		}
		if o.OddScript && i == 0 {
			tx.AddTxOut(&wire.TxOut{Value: 0, PkScript: OddScript(height, o.Salt)})
		}
		txs = append(txs, tx)
		prevScripts = append(prevScripts, in.Script)
		h := tx.TxHash()
		created = append(created,
			UTXO{Op: wire.OutPoint{Hash: h, Index: 0}, Script: t.Keys[k1].Script, Value: v, KeyIdx: k1, Height: height},
			UTXO{Op: wire.OutPoint{Hash: h, Index: 1}, Script: t.Keys[k2].Script, Value: in.Value - v, KeyIdx: k2, Height: height},
		)
	}

	// Witness commitment (always present; valid).
	all := append([]*wire.MsgTx{cb}, txs...)
	utx := make([]*btcutil.Tx, len(all))
	for i, tx := range all {
		utx[i] = btcutil.NewTx(tx)
	}
	wroot := blockchain.CalcMerkleRoot(utx, true)
	var pre [64]byte
	copy(pre[:32], wroot[:])
	commit := chainhash.DoubleHashB(pre[:])
	cscript := append([]byte{txscript.OP_RETURN, txscript.OP_DATA_36, 0xaa, 0x21, 0xa9, 0xed}, commit...)
	cb.AddTxOut(&wire.TxOut{Value: 0, PkScript: cscript})

	// Rebuild wrappers (coinbase changed) and compute the merkle root.
	for i, tx := range all {
		utx[i] = btcutil.NewTx(tx)
	}
	root := blockchain.CalcMerkleRoot(utx, false)

	cbh := cb.TxHash()
	pool = append(pool, UTXO{Op: wire.OutPoint{Hash: cbh, Index: 0}, Script: key.Script,
		Value: 50_0000_0000, KeyIdx: o.PayTo % len(t.Keys), Height: height})
	pool = append(pool, created...)
	if len(pool) > poolCap {
		pool = pool[len(pool)-poolCap:]
	}
	blk := &wire.MsgBlock{Transactions: all}
	return builtBlock{block: blk, merkle: root, prevScripts: prevScripts, pool: pool}
}

// Pool returns the model's candidate unspent outputs on b's branch.
func (b *Block) Pool() []UTXO { return b.pool }

// Filter returns the block's BIP158 basic filter, its filter hash and its
// BIP157 filter header (which chains from the parent's).
func (t *Tree) Filter(b *Block) (*gcs.Filter, chainhash.Hash, chainhash.Hash) {
	if b.haveFilter {
		return b.filter, b.filterHash, b.filterHdr
	}
	// Iterative to avoid deep recursion on long chains.
	var stack []*Block
	for n := b; n != nil && !n.haveFilter; n = n.Parent {
		stack = append(stack, n)
	}
	for i := len(stack) - 1; i >= 0; i-- {
		n := stack[i]
		f, err := builder.BuildBasicFilter(n.Msg, n.PrevScripts)
		if err != nil {
			panic(err)
		}
		fh, err := builder.GetFilterHash(f)
		if err != nil {
			panic(err)
		}
		var prev chainhash.Hash
		if n.Parent != nil {
			prev = n.Parent.filterHdr
		}
		n.filter, n.filterHash = f, fh
		n.filterHdr = chainhash.DoubleHashH(append(fh[:], prev[:]...))
		n.haveFilter = true
	}
	return b.filter, b.filterHash, b.filterHdr
}

// FilterHeader is shorthand for the third result of Filter.
func (t *Tree) FilterHeader(b *Block) chainhash.Hash {
	_, _, h := t.Filter(b)
	return h
}
