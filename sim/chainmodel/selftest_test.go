package chainmodel

import (
	"testing"
	"time"

	"github.com/btcsuite/btcd/blockchain"
	"github.com/btcsuite/btcd/btcutil/v2"
	"github.com/btcsuite/btcd/chaincfg/v2"
	"github.com/btcsuite/btcd/chainhash/v2"
	"github.com/btcsuite/btcd/txscript/v2"
	"github.com/btcsuite/btcd/wire/v2"
	"github.com/lightninglabs/neutrino"
)

type hctx struct {
	chain []wire.BlockHeader
	h     int32
}

func (c *hctx) Height() int32    { return c.h }
func (c *hctx) Bits() uint32     { return c.chain[c.h].Bits }
func (c *hctx) Timestamp() int64 { return c.chain[c.h].Timestamp.Unix() }
func (c *hctx) Parent() blockchain.HeaderCtx {
	if c.h == 0 {
		return nil
	}
	return &hctx{c.chain, c.h - 1}
}
func (c *hctx) RelativeAncestorCtx(d int32) blockchain.HeaderCtx {
	if d > c.h {
		return nil
	}
	return &hctx{c.chain, c.h - d}
}

type cctx struct{ p *chaincfg.Params }

func (c *cctx) ChainParams() *chaincfg.Params { return c.p }
func (c *cctx) BlocksPerRetarget() int32       { return BlocksPerRetarget(c.p) }
func (c *cctx) MinRetargetTimespan() int64 {
	return int64(c.p.TargetTimespan/time.Second) / c.p.RetargetAdjustmentFactor
}
func (c *cctx) MaxRetargetTimespan() int64 {
	return int64(c.p.TargetTimespan/time.Second) * c.p.RetargetAdjustmentFactor
}
func (c *cctx) VerifyCheckpoint(int32, *chainhash.Hash) bool          { return true }
func (c *cctx) FindPreviousCheckpoint() (blockchain.HeaderCtx, error) { return nil, nil }

type fixedTime struct{ t time.Time }

func (f fixedTime) AdjustedTime() time.Time       { return f.t }
func (f fixedTime) AddTimeSample(string, time.Time) {}
func (f fixedTime) Offset() time.Duration         { return 0 }

func btcdAccepts(p *chaincfg.Params, chain []wire.BlockHeader, h *wire.BlockHeader, now time.Time) error {
	prev := &hctx{chain, int32(len(chain) - 1)}
	if err := blockchain.CheckBlockHeaderContext(h, prev, 0, &cctx{p}, true); err != nil {
		return err
	}
	return blockchain.CheckBlockHeaderSanity(h, p.PowLimit, fixedTime{now}, 0)
}

// TestValidatorAgreesWithBtcd cross-checks the independent validator against
// btcd's consensus functions on honest chains and on every single-rule break.
func TestValidatorAgreesWithBtcd(t *testing.T) {
	now := time.Date(2026, 9, 1, 0, 0, 0, 0, time.UTC)
	for _, o := range []ParamOpts{
		{}, {RetargetInterval: 8}, {RetargetInterval: 12, ReduceMinDifficulty: true},
		{RetargetInterval: 16, VersionFloor: 5},
	} {
		p := NewParams(o)
		tr := NewTree(p)
		tip := tr.Genesis
		start := now.Add(-200 * 10 * time.Minute)
		for i := 0; i < 120; i++ {
			// Vary spacing so retargets move both ways and the
			// min-difficulty rule fires.
			gap := 10 * time.Minute
			switch {
			case i%7 == 3:
				gap = 30 * time.Minute
			case i%5 == 1:
				gap = 1 * time.Minute
			case i > 40 && i < 70:
				gap = 2 * time.Minute
			}
			ts := start
			if i > 0 {
				ts = tip.Hdr.Timestamp.Add(gap)
			}
			nb := tr.Extend(tip, MineOpts{Time: ts, NTx: i % 3, PayTo: i, OpReturn: i%4 == 0})
			chain := tip.Headers()
			if e := ValidateNext(p, chain, &nb.Hdr, now); e != nil {
				t.Fatalf("opts %+v: own validator rejects honest block %d: %v", o, nb.Height, e)
			}
			if err := btcdAccepts(p, chain, &nb.Hdr, now); err != nil {
				t.Fatalf("opts %+v: btcd rejects honest block %d: %v", o, nb.Height, err)
			}
			// Each broken sibling must be rejected by both.
			breaks := []string{"pow", "median-time"}
			if !p.PoWNoRetargeting {
				breaks = append(breaks, "bits")
			}
			if o.VersionFloor > 0 && nb.Height >= o.VersionFloor {
				breaks = append(breaks, "version")
			}
			for _, br := range breaks {
				bad := tr.Extend(tip, MineOpts{Time: ts, Break: br, Salt: 99})
				e := ValidateNext(p, chain, &bad.Hdr, now)
				err := btcdAccepts(p, chain, &bad.Hdr, now)
				if e == nil || err == nil {
					t.Fatalf("opts %+v height %d break %s: own=%v btcd=%v", o, bad.Height, br, e, err)
				}
				if e.Rule != br && !(br == "bits" && (e.Rule == "pow-range" || e.Rule == "bits")) {
					t.Fatalf("break %s classified as %s", br, e.Rule)
				}
			}
			fut := tr.Extend(tip, MineOpts{Time: now.Add(3 * time.Hour), Salt: 98})
			e := ValidateNext(p, chain, &fut.Hdr, now)
			err := btcdAccepts(p, chain, &fut.Hdr, now)
			if (e == nil) != (err == nil) {
				t.Fatalf("future-time disagreement own=%v btcd=%v", e, err)
			}
			// Full block checks.
			blk := btcutil.NewBlock(nb.Msg)
			if err := blockchain.CheckBlockSanity(blk, p.PowLimit, fixedTime{now}); err != nil {
				t.Fatalf("block %d sanity: %v", nb.Height, err)
			}
			if err := blockchain.ValidateWitnessCommitment(blk); err != nil {
				t.Fatalf("block %d witness commitment: %v", nb.Height, err)
			}
			f, _, _ := tr.Filter(nb)
			if _, err := neutrino.VerifyBasicBlockFilter(f, blk); err != nil {
				t.Fatalf("block %d filter: %v", nb.Height, err)
			}
			for ti, tx := range nb.Msg.Transactions[1:] {
				s, err := txscript.ComputePkScript(nil, tx.TxIn[0].Witness)
				if err != nil || string(s.Script()) != string(nb.PrevScripts[ti]) {
					t.Fatalf("block %d tx %d: derived script mismatch (%v)", nb.Height, ti, err)
				}
			}
			tip = nb
		}
		if e := ValidateChain(p, tip.Headers(), now); e != nil {
			t.Fatalf("chain: %v", e)
		}
		// Retargeting must actually have happened when enabled.
		if !p.PoWNoRetargeting {
			changed := false
			for _, h := range tip.Headers() {
				if h.Bits != p.PowLimitBits {
					changed = true
				}
			}
			if !changed {
				t.Fatalf("opts %+v: difficulty never moved", o)
			}
		}
	}
}
