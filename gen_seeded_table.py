#!/usr/bin/env python3
"""Rewrites the table between the SEEDED-TABLE markers in DESIGN.md from
/verif/seeded/*/meta.json (what each seeded change is, which check(s) it was
run against, and the verdict recorded by seedrun.sh)."""
import json, glob, os, re
rows = []
for d in sorted(glob.glob('/verif/seeded/*/')):
    mp = os.path.join(d, 'meta.json')
    if not os.path.exists(mp):
        continue
    m = json.load(open(mp))
    sid = os.path.basename(d.rstrip('/'))
    what = re.sub(r'\s+', ' ', m.get('summary', '')).strip()
    what = what.replace('|', '/')
    if len(what) > 230:
        what = what[:227] + '...'
    ch = m.get('checks') or {}
    verdicts = []
    for P in sorted(ch):
        c = ch[P]
        if c.get('caught'):
            fv = c.get('first_violation', '')
            mm = re.search(r'clause=(\S+)', fv)
            cl = mm.group(1) if mm else ('data race' if 'DATA RACE' in fv else 'violation')
            verdicts.append('%s: caught (%s)' % (P, cl))
        else:
            verdicts.append('%s: not caught (exit %s)' % (P, c.get('exit')))
    note = m.get('miss_reason', '')
    rows.append('| %s | %s | %s | %s |' % (sid, what, '; '.join(verdicts) or 'not run', note.replace('|', '/')))
table = '| id | change | verdict of the quick check(s) | note |\n|---|---|---|---|\n' + '\n'.join(rows) + '\n'
p = '/verif/DESIGN.md'
s = open(p).read()
a, b = '<!-- SEEDED-TABLE-BEGIN -->', '<!-- SEEDED-TABLE-END -->'
if a in s:
    s = s[:s.index(a) + len(a)] + '\n' + table + s[s.index(b):]
    open(p, 'w').write(s)
n = len(rows); c = sum(1 for r in rows if ': caught' in r)
print('%d seeded changes, %d caught by at least one check' % (n, c))
