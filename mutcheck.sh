#!/bin/bash
# mutcheck.sh <name> <mutation> <PROP> [PROP...]
#   mutation = revert:<commit>  |  patch:<file>  |  sed:<file>:<expr>
# Builds a scratch worktree of /repo HEAD, applies the mutation, runs the quick
# checks of the given properties against it (--repo), removes the worktree.
# Output: one line per property with exit code and first violation line.
set -u
NAME=$1; MUT=$2; shift 2
WT=/tmp/mut-$NAME
git -C /repo worktree remove --force $WT 2>/dev/null; rm -rf $WT
git -C /repo worktree add -q --detach $WT HEAD || exit 2
trap 'git -C /repo worktree remove --force $WT 2>/dev/null; rm -rf $WT' EXIT
case $MUT in
  revert:*) git -C $WT revert --no-commit ${MUT#revert:} >/dev/null 2>&1 || { echo "MUT $NAME: revert failed"; exit 2; } ;;
  patch:*)  git -C $WT apply ${MUT#patch:} 2>/dev/null || git -C $WT apply --3way ${MUT#patch:} || { echo "MUT $NAME: patch failed"; exit 2; } ;;
  sed:*)    f=$(echo "$MUT" | cut -d: -f2); e=$(echo "$MUT" | cut -d: -f3-); sed -i "$e" $WT/$f; git -C $WT diff --quiet && { echo "MUT $NAME: sed changed nothing"; exit 2; } ;;
esac
export GOFLAGS=-mod=mod GOPROXY=off GOSUMDB=off GOTOOLCHAIN=local
( cd $WT && go1.26.8 build ./... ) > /tmp/mut-$NAME.build.log 2>&1 || { echo "MUT $NAME: does not build"; tail -3 /tmp/mut-$NAME.build.log; exit 2; }
for P in "$@"; do
  ( cd /verif && ./check $P --tier quick --repo $WT ${MUTARGS:-} ) > /tmp/mut-$NAME.$P.log 2>&1
  RC=$?
  echo "MUT $NAME: check $P exit=$RC $(grep -m1 '^violation' /tmp/mut-$NAME.$P.log | cut -c1-260)"
done
