#!/bin/bash
# selftest_determinism.sh <PROP> [seeds=200] [reps=3]
# Runs the same seeds of a property's engine <reps> times at GOMAXPROCS 1, 4
# and 16 in separate processes and compares, per seed, the behaviour
# fingerprint, tape length, step count, verdict and a digest of the whole
# event trace. Prints how many seeds diverged in any respect.
PROP=$1; N=${2:-200}; REPS=${3:-3}
export GOFLAGS=-mod=mod GOPROXY=off GOSUMDB=off GOTOOLCHAIN=local
ENG=$(python3 -c "import json;print(json.load(open('/verif/props.d/$PROP.json'))['engine'])")
BIN=/tmp/det-$ENG.test
( cd /verif/sim && go1.26.8 test -c -tags verif -o $BIN ./$ENG/ ) || exit 2
OUT=/tmp/det-$PROP; rm -rf $OUT; mkdir -p $OUT /dev/shm/det-$PROP
for gmp in 1 4 16; do for r in $(seq 1 $REPS); do
  ( cd /tmp && GOMAXPROCS=$gmp VERIF_SCRATCH=/dev/shm/det-$PROP VERIF_PROP=$PROP VERIF_SEED_START=7000001 VERIF_SEED_COUNT=$N VERIF_PRINT_TRACE=1 VERIF_MIN_S=1 \
    $BIN -test.run '^TestRun$' -test.cpu 1 2>&1 | python3 -c "
import sys,json,hashlib
tr={}
for l in sys.stdin:
    if l.startswith('TRACE '):
        p=l.split(' ',2); tr.setdefault(p[1],hashlib.sha256()).update(p[2].encode() if len(p)>2 else b'')
    elif l.startswith('{'):
        r=json.loads(l); s=str(r['seed'])
        v=r.get('violation') or {}
        print(s, r['fp'], r['tape_len'], r['steps'], v.get('clause','-'), ('INFRA' if r.get('infra_error') else '-'), tr[s].hexdigest()[:12] if s in tr else '-')
" > $OUT/g$gmp.r$r.txt ) &
done; done; wait
python3 - $OUT <<'PY'
import sys,glob,collections
runs={f:dict((l.split()[0],l.split()[1:]) for l in open(f)) for f in sorted(glob.glob(sys.argv[1]+'/*.txt'))}
seeds=set().union(*[set(r) for r in runs.values()])
div=collections.Counter(); n=0
for s in sorted(seeds):
    vals=[tuple(r.get(s,['missing'])) for r in runs.values()]
    n+=1
    if len(set(vals))>1:
        cols=list(zip(*[v for v in vals if len(v)==6])) if all(len(v)==6 for v in vals) else []
        what=[name for name,c in zip(['fp','tape_len','steps','clause','infra','trace'],cols) if len(set(c))>1] or ['missing']
        div['+'.join(what)]+=1
print("determinism %s: %d seeds x %d processes; seeds identical in every respect: %d; diverging: %s" % (sys.argv[1].split('-')[-1], n, len(runs), n-sum(div.values()), dict(div)))
PY
rm -rf /dev/shm/det-$PROP $BIN
