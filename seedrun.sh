#!/bin/bash
# seedrun.sh <seeded-id> [PROP ...]
# Confirms a seeded change from /tmp/seeded/<id>/ (or /verif/seeded/<id>/) in a
# scratch worktree of /repo HEAD (demo passes clean, fails with the patch, the
# existing suite passes with the patch), stores it under /verif/seeded/<id>/,
# runs the quick checks of the given properties (default: the seeded change's
# own property) against the patched worktree via --repo, records the verdicts
# in meta.json, and removes the worktree. /repo itself is never touched.
set -u
ID=$1; shift
SRC=/tmp/seeded/$ID; [ -d "$SRC" ] || SRC=/verif/seeded/$ID
[ -f "$SRC/patch.diff" ] || { echo "SEED $ID: no patch"; exit 2; }
export GOFLAGS=-mod=mod GOPROXY=off GOSUMDB=off GOTOOLCHAIN=local
WT=/tmp/sv-work   # one fixed path: the Go build cache then carries over between runs (sequential use only)
git -C /repo worktree remove --force $WT 2>/dev/null; rm -rf $WT
git -C /repo worktree add -q --detach $WT HEAD || exit 2
trap 'git -C /repo worktree remove --force $WT 2>/dev/null; rm -rf $WT' EXIT
PKG=$(python3 -c "import json;print(json.load(open('$SRC/meta.json')).get('demo_package_dir','.'))")
RX=$(python3 -c "import json;print(json.load(open('$SRC/meta.json')).get('demo_run_regex','TestSeeded'))")
PROP=$(python3 -c "import json;print(json.load(open('$SRC/meta.json'))['property'])")
RACE=$(python3 -c "import json;print('-race' if json.load(open('$SRC/meta.json')).get('demo_needs_race_detector') else '')")
[ $# -eq 0 ] && set -- $PROP
MODDIR=$WT; TESTPKG=./$PKG/
if [[ $PKG == cache/* || $PKG == cache ]]; then MODDIR=$WT/cache; TESTPKG=./${PKG#cache/}/; [ "$PKG" == cache ] && TESTPKG=./; fi
[ "$PKG" == "." ] && TESTPKG=.
SKIP='TestHandleHeaders|TestNeutrinoImportThenP2PSync|TestNeutrinoSyncWithHeadersImport|TestNeutrinoSyncWithoutHeadersImport|TestWorkManagerProgressTimeoutFailuresDontReset'
# RECHECK=1: a change already confirmed (stored with its confirmation) is only
# re-run against the checks.
if [ -n "${RECHECK:-}" ] && grep -q '"confirmed"' /verif/seeded/$ID/meta.json 2>/dev/null; then
  git -C $WT apply $SRC/patch.diff 2>/dev/null || git -C $WT apply --3way $SRC/patch.diff || { echo "SEED $ID: patch does not apply"; exit 3; }
  ( cd $WT && go1.26.8 build ./... && cd cache && go1.26.8 build ./... ) > /tmp/sv-$ID.build.log 2>&1 || { echo "SEED $ID: mutant does not build"; exit 3; }
  SKIPCONFIRM=1
fi
if [ -z "${SKIPCONFIRM:-}" ]; then
cp $SRC/demo_test.go $WT/$PKG/zz_seeded_demo_test.go
( cd $MODDIR && timeout 600 go1.26.8 test $RACE -vet=off -count=1 -run "$RX" $TESTPKG ) > /tmp/sv-$ID.clean.log 2>&1; CLEAN=$?
git -C $WT apply $SRC/patch.diff 2>/dev/null || git -C $WT apply --3way $SRC/patch.diff || { echo "SEED $ID: patch does not apply"; exit 3; }
( cd $WT && go1.26.8 build ./... && cd cache && go1.26.8 build ./... ) > /tmp/sv-$ID.build.log 2>&1 || { echo "SEED $ID: mutant does not build"; tail -3 /tmp/sv-$ID.build.log; exit 3; }
( cd $MODDIR && timeout 600 go1.26.8 test $RACE -vet=off -count=1 -run "$RX" $TESTPKG ) > /tmp/sv-$ID.mut.log 2>&1; MUT=$?
rm $WT/$PKG/zz_seeded_demo_test.go
( cd $WT && timeout 1500 go1.26.8 test -vet=off -count=1 -timeout 20m -skip "$SKIP" ./... && cd cache && timeout 600 go1.26.8 test -vet=off -count=1 ./... ) > /tmp/sv-$ID.suite.log 2>&1; SUITE=$?
# Timing-sensitive tests (query package) fail spuriously when the machine is
# busy: a package that failed is given two more tries on its own.
if [ $SUITE -ne 0 ]; then
  PKGS=$(grep -h "^FAIL[[:space:]]" /tmp/sv-$ID.suite.log | awk '{print $2}' | grep "^github.com/lightninglabs/neutrino" | sort -u)
  if [ -n "$PKGS" ] && ! grep -q "panic: test timed out" /tmp/sv-$ID.suite.log; then
    OK=1
    for PK in $PKGS; do
      REL=./${PK#github.com/lightninglabs/neutrino}; REL=${REL%/}; [ "$REL" == "." ] || REL=./${REL#.//}
      DIR=$WT; [[ $PK == */cache/* ]] && { DIR=$WT/cache; REL=./${PK#github.com/lightninglabs/neutrino/cache/}; }
      PASS=0
      for try in 1 2; do
        ( cd $DIR && timeout 900 go1.26.8 test -vet=off -count=1 -timeout 15m -skip "$SKIP" $REL ) >> /tmp/sv-$ID.suite.log 2>&1 && { PASS=1; break; }
      done
      [ $PASS -eq 1 ] || OK=0
    done
    [ $OK -eq 1 ] && { SUITE=0; echo "SEED $ID: suite passed on retry of $PKGS"; }
  fi
fi
echo "SEED $ID: demo clean rc=$CLEAN (want 0), demo mutant rc=$MUT (want !=0), suite on mutant rc=$SUITE (want 0)"
if [ $CLEAN -ne 0 ] || [ $MUT -eq 0 ] || [ $SUITE -ne 0 ]; then
  echo "SEED $ID: NOT CONFIRMED"; grep -h "^--- FAIL\|^FAIL\|panic:" /tmp/sv-$ID.suite.log /tmp/sv-$ID.clean.log | head -5; exit 4
fi
fi
mkdir -p /verif/seeded/$ID
[ "$SRC" != "/verif/seeded/$ID" ] && cp $SRC/patch.diff $SRC/demo_test.go $SRC/meta.json /verif/seeded/$ID/
VERD=""
for P in "$@"; do
  ( cd /verif && ./check $P --tier quick --repo $WT ) > /tmp/sv-$ID.$P.log 2>&1; RC=$?
  LINE=$(grep -m1 '^violation' /tmp/sv-$ID.$P.log | cut -c1-300)
  [ -z "$LINE" ] && LINE=$(grep -m1 'WARNING: DATA RACE\|^INFRA' /tmp/sv-$ID.$P.log | cut -c1-200)
  echo "SEED $ID: check $P exit=$RC $LINE"
  VERD="$VERD$P|$RC|$LINE
"
done
python3 - "$ID" "$VERD" <<'PY'
import json,sys,subprocess
id,verd=sys.argv[1],sys.argv[2]
p='/verif/seeded/%s/meta.json'%id
m=json.load(open(p))
m['id']=id
m['confirmed']="seedrun.sh: in a scratch worktree of /repo HEAD the demo passes on the clean tree, fails with the patch, and the repository's test suite (baseline skip list) passes with the patch"
m['repo_head_when_checked']=subprocess.run("git -C /repo rev-parse --short HEAD",shell=True,capture_output=True,text=True).stdout.strip()
ch=m.get('checks',{})
for line in verd.strip().split('\n'):
    if not line: continue
    P,rc,msg=line.split('|',2)
    ch[P]={"exit":int(rc),"caught":int(rc)==1,"first_violation":msg}
m['checks']=ch
json.dump(m,open(p,'w'),indent=1)
PY
