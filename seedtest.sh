#!/bin/bash
# seedtest.sh <seeded-id> <mutdir> <pkgdir-for-demo> <demo-run-regex> <PROP> [PROP...]
# 1. confirms in a scratch worktree that the mutation compiles, the package's
#    existing tests still pass, the demo fails with it and passes without it;
# 2. stores it as /verif/seeded/<id>/; 3. applies it to /repo, runs the quick
#    checks of the given properties, and undoes it straight afterwards.
set -u
ID=$1; MUT=$2; PKG=$3; RX=$4; shift 4
export GOFLAGS=-mod=mod GOPROXY=off GOSUMDB=off GOTOOLCHAIN=local
WT=/tmp/vt-$ID
git -C /repo worktree remove --force $WT 2>/dev/null
git -C /repo worktree add -q --detach $WT HEAD || exit 2
res() { echo "SEEDTEST $ID: $*"; }
cleanup() { git -C /repo worktree remove --force $WT 2>/dev/null; rm -rf $WT; }
MODDIR=$WT; TESTPKG=./$PKG/
MF=""
if [[ $PKG == cache/* ]]; then MODDIR=$WT/cache; TESTPKG=./${PKG#cache/}/; fi
cp $MUT/demo_test.go $WT/$PKG/zz_demo_test.go
( cd $MODDIR && go1.26.8 test -vet=off -count=1 -run "$RX" $TESTPKG ) > /tmp/vt-$ID.clean.log 2>&1
CLEAN=$?
if ! git -C $WT apply $MUT/patch.diff; then res "patch does not apply"; cleanup; exit 2; fi
( cd $MODDIR && go1.26.8 build ./... ) > /tmp/vt-$ID.build.log 2>&1 || { res "mutant does not build"; cat /tmp/vt-$ID.build.log | tail; cleanup; exit 2; }
( cd $MODDIR && go1.26.8 test -vet=off -count=1 -run "$RX" $TESTPKG ) > /tmp/vt-$ID.mut.log 2>&1
MUTRC=$?
rm $WT/$PKG/zz_demo_test.go
SKIP='TestHandleHeaders|TestNeutrinoImportThenP2PSync|TestNeutrinoSyncWithHeadersImport|TestNeutrinoSyncWithoutHeadersImport|TestWorkManagerProgressTimeoutFailuresDontReset'
( cd $MODDIR && go1.26.8 test -vet=off -count=1 -timeout 20m -skip "$SKIP" $TESTPKG ) > /tmp/vt-$ID.suite.log 2>&1
SUITE=$?
res "demo on clean tree rc=$CLEAN (want 0); demo on mutant rc=$MUTRC (want !=0); package suite on mutant rc=$SUITE (want 0)"
cleanup
if [ $CLEAN -ne 0 ] || [ $MUTRC -eq 0 ] || [ $SUITE -ne 0 ]; then res "NOT CONFIRMED"; tail -5 /tmp/vt-$ID.suite.log; exit 3; fi
mkdir -p /verif/seeded/$ID
cp $MUT/patch.diff $MUT/demo_test.go /verif/seeded/$ID/
python3 - "$ID" "$MUT" "$PKG" "$RX" "$@" <<'PY'
import json,sys
id,mut,pkg,rx=sys.argv[1:5]; props=sys.argv[5:]
m=json.load(open(mut+'/meta.json'))
m.update({"id":id,"demo_package_dir":pkg,"demo_run_regex":rx,"confirmed_by":"seedtest.sh: demo passes on clean HEAD, fails with patch, package test suite passes with patch","checked_with":props})
json.dump(m,open('/verif/seeded/%s/meta.json'%id,'w'),indent=1)
PY
# Now the verdict of the checks.
if ! git -C /repo diff --quiet; then res "/repo is dirty, refusing"; exit 2; fi
git -C /repo apply $MUT/patch.diff || { res "patch does not apply to /repo"; exit 2; }
for P in "$@"; do
  ( cd /verif && ./check $P --tier quick ) > /tmp/vt-$ID.$P.log 2>&1
  RC=$?
  V=$(grep -c '^VIOLATION' /tmp/vt-$ID.$P.log)
  res "check $P exit=$RC violations=$V $(grep -m1 '^violation' /tmp/vt-$ID.$P.log | cut -c1-220)"
done
git -C /repo checkout -- .
git -C /repo status --short | grep -v '^??' | head
