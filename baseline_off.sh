#!/bin/bash
# Runs the repository's own test suite with the verif build tag OFF and checks
# that every test in BASELINE.json's stable_pass list passes.
export GOFLAGS=-mod=mod GOPROXY=off GOSUMDB=off GOTOOLCHAIN=local
OUT=$(mktemp /tmp/baseline.XXXXXX.json)
for m in . ./cache; do
  (cd /repo/$m && go1.26.8 test -json -vet=off -count=1 -timeout 25m ./... ) >> "$OUT" 2>/dev/null
done
python3 - "$OUT" <<'PY'
import json,sys
res={}
for line in open(sys.argv[1]):
    try: e=json.loads(line)
    except Exception: continue
    if e.get("Test") and e.get("Action") in ("pass","fail","skip"):
        res[e["Package"]+"::"+e["Test"]]=e["Action"]
base=json.load(open("/root/.vp/BASELINE.json"))
bad=[t for t in base["stable_pass"] if res.get(t)!="pass"]
print("baseline: %d stable tests, %d passing, %d not passing"%(len(base["stable_pass"]),len(base["stable_pass"])-len(bad),len(bad)))
for t in bad: print("NOT PASSING:",t,res.get(t))
sys.exit(1 if bad else 0)
PY
rc=$?
rm -f "$OUT"
exit $rc
